import BnpVerif.Proto
import BnpVerif.Model.C07
namespace Drv.C07
open Lean Proto Py _root_.C07

def optInt (j : Json) (k : String) : Except String (Option Int) :=
  match j.getObjVal? k with
  | .ok Json.null => pure none
  | .ok v => do pure (some (← v.getInt?))
  | .error _ => pure none

def parseIdx (j : Json) : Except String Idx := do
  let t ← getStr j "t"
  match t with
  | "int" => pure (.int (← getInt j "i"))
  | "slice" => pure (.slice (← optInt j "a") (← optInt j "b") (← getInt j "s"))
  | "mask" => do
    let a ← getArr j "m"
    pure (.mask (← a.mapM (·.getBool?)))
  | "list" => pure (.list (← getIntList j "is"))
  | _ => throw s!"bad idx {t}"

def parseVal (j : Json) : Except String (Val Nat) := do
  let t ← getStr j "t"
  match t with
  | "flat" => pure (.flat (← getNatList j "l"))
  | "rag" => pure (.rag (← getNatListList j "r"))
  | _ => throw s!"bad val {t}"

def parseOp (j : Json) : Except String (Op Nat) := do
  let o ← getStr j "o"
  match o with
  | "index" => pure (.index (← parseIdx (← j.getObjVal? "ix")))
  | "colSlice" => pure (.colSlice (← optInt j "a") (← optInt j "b") (← getInt j "s"))
  | "colInt" => pure (.colInt (← parseIdx (← j.getObjVal? "rows")) (← getInt j "j"))
  | "concat" => pure (.concat (← parseVal (← j.getObjVal? "w")))
  | "ravel" => pure .ravel
  | "copy" => pure .copy
  | "setRow" => pure (.setRow (← getInt j "i") (← getNatList j "v"))
  | "setRowSlice" => pure (.setRowSlice (← getInt j "i") (← optInt j "a") (← optInt j "b") (← getNatList j "v"))
  | "setFlat" => pure (.setFlat (← parseIdx (← j.getObjVal? "ix")) (← getNatList j "v"))
  | "append" => pure (.append (← getNatList j "v"))
  | "insert" => pure (.insert (← getInt j "i") (← getNatList j "v"))
  | _ => throw s!"bad op {o}"

def valJson : Val Nat → Json
  | .flat l => Json.mkObj [("t", str "flat"), ("l", natList l)]
  | .rag r => Json.mkObj [("t", str "rag"), ("r", natListList r)]
  | .scalar c => Json.mkObj [("t", str "scalar"), ("c", nat c)]

def boolValJson : Val Bool → Json
  | .flat l => Json.mkObj [("t", str "flat"), ("l", boolList l)]
  | .rag r => Json.mkObj [("t", str "rag"), ("r", Json.arr (r.map boolList).toArray)]
  | .scalar c => Json.mkObj [("t", str "scalar"), ("c", Json.bool c)]

def errJ : Json := Json.mkObj [("err", str "index")]

/-- `dec`: the decode table of the encoding (code → character byte); the model runs on codes, the
spec runs the same program on the decoded characters -/
def handle (op : String) (j : Json) : Except String Json := do
  match op with
  | "program" =>
    let dec ← getNatList j "dec"
    let f : Nat → Nat := fun c => dec.getD c 0
    let v ← parseVal (← j.getObjVal? "v")
    let ops ← (← getArr j "ops").mapM parseOp
    let m := match run v ops with
      | some r => Json.mkObj [("text", valJson (r.map f))]
      | none => errJ
    let s := match run (v.map f) (ops.map (Op.map f)) with
      | some r => Json.mkObj [("text", valJson r)]
      | none => errJ
    pure (reply m (some s))
  | "eqchar" =>
    let dec ← getNatList j "dec"
    let f : Nat → Nat := fun c => dec.getD c 0
    let v ← parseVal (← j.getObjVal? "v")
    let ops ← (← getArr j "ops").mapM parseOp
    let c ← getNat j "c"          -- a code
    let m := match run v ops with
      | some r => Json.mkObj [("eq", boolValJson (eqChar c r))]
      | none => errJ
    let s := match run (v.map f) (ops.map (Op.map f)) with
      | some r => Json.mkObj [("eq", boolValJson (eqChar (f c) r))]
      | none => errJ
    pure (reply m (some s))
  | "observe_m" =>
    -- a program followed by an observation computed in the model (== string/array, != char, np.where, len)
    let dec ← getNatList j "dec"
    let f : Nat → Nat := fun c => dec.getD c 0
    let v ← parseVal (← j.getObjVal? "v")
    let ops ← (← getArr j "ops").mapM parseOp
    let kind ← getStr j "obs"
    let o : Obs Nat ← match kind with
      | "eqstr" | "eqarr" => pure (Obs.eqStr (← getNatList j "s"))
      | "neqchar" => pure (Obs.neChar (← getNat j "c"))
      | "where" => do
        let a ← getArr j "m"
        pure (Obs.whereWith (← a.mapM (·.getBool?)) (← getNatList j "s"))
      | "len" => pure Obs.len
      | _ => throw s!"bad obs {kind}"
    let resJ : ObsRes Nat → Json := fun r => match r with
      | .bools b => Json.mkObj [("obs", boolValJson b)]
      | .boolList l => Json.mkObj [("obs", boolList l)]
      | .text l => Json.mkObj [("obs_text", natList l)]
      | .num n => Json.mkObj [("obs", nat n)]
    let m := match (run v ops).bind (observe o) with
      | some r => resJ (r.map f)
      | none => errJ
    let s := match (run (v.map f) (ops.map (Op.map f))).bind (observe (o.map f)) with
      | some r => resJ r
      | none => errJ
    pure (reply m (some s))
  | "strequal" =>
    let r ← getNatListList j "r"
    let s ← getNatList j "s"
    pure (reply (boolList (strEqual s r)) (some (boolList (r.map (fun row => decide (row = s))))))
  | "split" =>
    let s ← getNatList j "s"
    let sep ← getNat j "sep"
    pure (reply (natListList (split sep s)))
  | "join" =>
    let r ← getNatListList j "r"
    let sep ← getNat j "sep"
    pure (reply (natList (join sep r)))
  | _ => throw s!"C07: unknown op {op}"
end Drv.C07
