import BnpVerif.Proto
import BnpVerif.Model.C10
namespace Drv.C10
open Lean Proto _root_.C10

def raised : Json := Json.mkObj [("err", str "raised")]

def parseIv (v : Json) : Except String Iv := do
  let a ← v.getArr?
  match a.toList with
  | [c, s, e, f] => pure { c := ← c.getNat?, s := ← s.getNat?, e := ← e.getNat?, fwd := ← f.getBool? }
  | _ => throw "iv row"

def parseIvZ (v : Json) : Except String IvZ := do
  let a ← v.getArr?
  match a.toList with
  | [c, s, e, f] => pure { c := ← c.getNat?, s := ← s.getInt?, e := ← e.getInt?, fwd := ← f.getBool? }
  | _ => throw "iv row"

def getIvZs (j : Json) : Except String (List IvZ) := do (← getArr j "iv").mapM parseIvZ

/-- the entries as natural-number intervals (entries the integer checks refuse are reported by `ivsRefused`) -/
def getIvs (j : Json) : Except String (List Iv) := do
  pure ((← getIvZs j).map (fun z => { c := z.c, s := z.s.toNat, e := z.e.toNat, fwd := z.fwd }))

/-- some entry on an included chromosome is refused by the integer checks of the globalisation (`IvZ.checked`) -/
def ivsRefused (j : Json) (ign : List Bool) : Except String Bool := do
  pure ((← getIvZs j).any (fun z => !(ign.getD z.c false) && (IvZ.checked z).isNone))

def getBoolList (j : Json) (k : String) : Except String (List Bool) := do
  (← getArr j k).mapM (·.getBool?)

def getPairs (j : Json) (k : String) : Except String (List (Nat × Int)) := do
  (← getArr j k).mapM (fun v => do
    let a ← v.getArr?
    match a.toList with
    | [c, p] => pure (← c.getNat?, ← p.getInt?)
    | _ => throw "pair")

def ivJ (l : List Iv) : Json := Json.arr (l.map (fun iv => natList [iv.c, iv.s, iv.e])).toArray
def ivZJ (l : List IvZ) : Json :=
  Json.arr (l.map (fun iv => Json.arr #[nat iv.c, int iv.s, int iv.e])).toArray
def objIv (l : List Iv) : Json := Json.mkObj [("iv", ivJ l)]
def objIvZ (l : List IvZ) : Json := Json.mkObj [("iv", ivZJ l)]

def optJ {α} (f : α → Json) : Option α → Json
  | some a => f a
  | none => raised

/-- rank of original chromosome `c` among the included ones (specification side) -/
def rankOf (ign : List Bool) (c : Nat) : Nat := ((ign.take c).filter (!·)).length

def lexLe (a b : List Nat) : Bool := !(b < a)
def insSorted (l : List (List Nat)) : List (List Nat) :=
  l.foldl (fun acc x => (acc.takeWhile (fun y => lexLe y x)) ++ x :: (acc.dropWhile (fun y => lexLe y x))) []

def handle (op : String) (j : Json) : Except String Json := do
  let sizes ← getNatList j "sizes"
  let ign ← getBoolList j "ign"
  let isz := includedSizes sizes ign
  let n := isz.length
  match op with
  | "lookup" =>
    let keys ← getNatListList j "keys"
    let qs ← getNatListList j "qs"
    let f := fun (l : List Nat) => Json.mkObj [("idx", natList l)]
    let m := Base.omap (lookupName keys) qs
    let s := Base.omap (fun q => if keys.idxOf q < keys.length then some (keys.idxOf q) else none) qs
    pure (reply (optJ f m) (some (optJ f s)))
  | "l2g" =>
    let pts ← getPairs j "pts"
    let m := Base.omap (fun (x : Nat × Int) => fromLocalZ isz (encodeIdx ign x.1) x.2) pts
    let s := Base.omap (fun (x : Nat × Int) =>
      if 0 ≤ x.2 ∧ x.2 < (sizes.getD x.1 0 : Int) then
        some ((((sizes.zip ign).take x.1).filter (fun y => !y.2)).map (·.1) |>.sum |> (· + x.2.toNat)) else none) pts
    let f := fun (g : List Nat) => Json.mkObj [("g", natList g)]
    pure (reply (optJ f m) (some (optJ f s)))
  | "globalise" =>
    let clip ← (← j.getObjVal? "clip").getBool?
    let zs := (← getIvZs j).map (fun z => { z with c := encodeIdx ign z.c })
    let f := fun (l : List (Nat × Nat)) => natListList (l.map (fun x => [x.1, x.2]))
    let m := match Base.omap (globaliseZ isz clip) zs with
      | none => raised
      | some gl => match Base.omap (toLocalIv isz) gl with
        | none => raised
        | some back => Json.mkObj [("se", f gl), ("gi", f gl), ("back", ivJ back)]
    -- specification, written on the original chromosome list: sum of the included sizes before the entry's chromosome,
    -- the stop cut at the entry's own chromosome
    let before := fun (c : Nat) => (((sizes.zip ign).take c).filter (fun y => !y.2)).map (·.1) |>.sum
    let sp := Base.omap (fun (z : IvZ) =>
      let sz := sizes.getD z.c 0
      if 0 ≤ z.s ∧ z.s < (sz : Int) ∧ z.s ≤ z.e ∧ (clip ∨ z.e ≤ (sz : Int)) then
        some ((before z.c + z.s.toNat, before z.c + (if z.e ≤ (sz : Int) then z.e.toNat else sz)),
              (encodeIdx ign z.c, z.s.toNat, (if z.e ≤ (sz : Int) then z.e.toNat else sz)))
      else none) (← getIvZs j)
    let s := match sp with
      | none => raised
      | some l => Json.mkObj [("se", f (l.map (·.1))), ("gi", f (l.map (·.1))),
          ("back", natListList (l.map (fun x => [x.2.1, x.2.2.1, x.2.2.2])))]
    pure (reply m (some s))
  | "g2l" =>
    let gs ← getNatList j "gs"
    let f := fun (l : List (Nat × Nat)) => Json.mkObj [("cp", natListList (l.map (fun x => [x.1, x.2])))]
    pure (reply (f (gs.map (toLocal isz))) (some (f (gs.map (specToLocal isz)))))
  | "pileup" | "mask" =>
    let ivs ← getIvs j
    let path := (getStr j "path").toOption.getD "mem"
    let via := (getStr j "via").toOption.getD "genome"
    let mk := maskData ign ivs
    -- the observation: per-chromosome arrays + the genome-wide quantities of the whole track
    let obs := fun (chroms : List (List Nat)) (dense : List Nat) =>
      Json.mkObj ([("chroms", natListList chroms), ("sum", nat dense.sum), ("zeros", nat (zerosOf dense)),
        ("hist", if op == "pileup" then natList (histOf dense) else Json.null)]
        ++ (if path == "mem" then [("gsize", nat dense.length)] else [])
        ++ (if path == "mem" && via == "geometry" && op == "mask" then [("glob", natList dense)] else []))
    let m := if path == "mem" then
        (if op == "pileup" then pileupGlobal isz mk else maskGlobal isz mk).map (fun d => obs (toDict isz d) d)
      else
        let chroms := if op == "pileup" then pileupStreamRuns isz mk else maskStreamRuns isz mk
        some (obs chroms chroms.flatten)
    let sp := specMask ign ivs
    let sc := (List.range n).map (fun c => if op == "pileup" then specPileupChrom isz sp c else specMaskChrom isz sp c)
    if path == "mem" && (← ivsRefused j ign) then pure (reply raised (some raised)) else
    let okSpec := path != "mem" || sp.all (fun iv => iv.valid isz)
    pure (reply (optJ id m) (some (if okSpec then obs sc sc.flatten else raised)))
  | "merge" =>
    let ivs ← getIvs j
    let d ← getNat j "d"
    let path := (getStr j "path").toOption.getD "mem"
    let mk := maskData ign ivs
    let sp := specMask ign ivs
    if path == "mem" && (← ivsRefused j ign) then pure (reply raised (some raised)) else
    let m := if path == "mem" then mergeChecked d isz mk else mergeFixed d mk
    -- an interval outside its chromosome is not a valid input of the in-memory merge: an error is demanded
    let s := if path == "mem" && !(sp.all (fun iv => iv.valid isz) && sortedAdj (sp.map (fun iv => offset isz iv.c + iv.s)))
      then none else specMerge d n sp
    pure (reply (optJ objIv m) (some (optJ objIv s)))
  | "clip" | "extend" =>
    let ivs ← getIvZs j
    let L ← if op == "extend" then getInt j "L" else pure 0
    let m := (maskDataZ ign ivs).map (fun iv => if op == "clip" then clipG isz iv else extendG isz L iv)
    let s := (ivs.filter (fun iv => !(ign.getD iv.c false))).map (fun iv =>
      let r := if op == "clip" then clip1 (sizes.getD iv.c 0) iv.s iv.e else extend1 (sizes.getD iv.c 0) L iv.fwd iv.s iv.e
      ({ c := rankOf ign iv.c, s := r.1, e := r.2 } : IvZ))
    pure (reply (objIvZ m) (some (objIvZ s)))
  | "windows" =>
    let pts ← getPairs j "pts"
    let flank := match j.getObjVal? "flank" with
      | .ok v => (v.getNat?).toOption
      | .error _ => none
    let wsize := match j.getObjVal? "wsize" with
      | .ok v => ((v.getNat?).toOption).getD 0
      | .error _ => 0
    let fl := flanks flank wsize
    let m := pts.map (fun x => windowG isz fl (encodeIdx ign x.1) x.2 true)
    let s := pts.map (fun x =>
      let r := clip1 (sizes.getD x.1 0) (x.2 - fl.1) (x.2 + fl.2)
      ({ c := rankOf ign x.1, s := r.1, e := r.2 } : IvZ))
    pure (reply (objIvZ m) (some (objIvZ s)))
  | "sort" =>
    let ivs ← getIvs j
    let via ← getStr j "via"
    let mk := maskData ign ivs
    if via == "geometry" then
      pure (reply (objIv (sortByGlobalStart isz mk)) none)
    else
      let s := insSorted ((specMask ign ivs).map (fun iv => [iv.c, iv.s, iv.e]))
      pure (reply (objIv (sortGenome mk)) (some (Json.mkObj [("iv", natListList s)])))
  | "location" =>
    let ivs ← getIvs j
    let stranded ← getBool j "stranded"
    let w ← getNat j "where"
    let f := fun (l : List Iv) => Json.mkObj [("pts", intListList (l.map (fun iv => [(iv.c : Int), location stranded w iv])))]
    pure (reply (f (maskData ign ivs)) none)
  | "extract" =>
    let ivs ← getIvs j
    let stranded ← getBool j "stranded"
    let vals ← getNatListList j "vals"
    let arrays := ((vals.zip ign).filter (fun y => !y.2)).map (·.1)
    let f := fun (rows : List (List Nat)) => Json.mkObj [("rows", natListList rows)]
    if (← ivsRefused j ign) then pure (reply raised (some raised)) else
    let m := Base.omap (extractRow isz arrays.flatten stranded) (maskData ign ivs)
    let sp := specMask ign ivs
    let s := if sp.all (fun iv => iv.valid isz) then f (sp.map (specExtractRow arrays stranded)) else raised
    pure (reply (optJ f m) (some s))
  | "trackviews" =>
    let ivs ← getIvs j
    let vals ← getNatListList j "vals"
    let pts ← getPairs j "pts"
    let arrays := ((vals.zip ign).filter (fun y => !y.2)).map (·.1)
    let dense := arrays.flatten
    let mk := fun (chrom : List (List Nat)) (at_ bool_ : List Nat) =>
      Json.mkObj [("chrom", natListList chrom), ("data", natListList chrom), ("at", natList at_), ("bool", natList bool_),
        ("npsum", nat dense.sum), ("rt", natListList chrom)]
    let m := match Base.omap (fun (x : Nat × Int) => if x.2 < 0 then none else extractAt isz dense (encodeIdx ign x.1) x.2.toNat) pts,
                   maskGlobal isz (maskData ign ivs) with
      | some a, some mask => some (mk (toDict isz dense) a (boolIndex dense mask))
      | _, _ => none
    let sp := specMask ign ivs
    let sAt := pts.map (fun x => (vals.getD x.1 []).getD x.2.toNat 0)
    let sBool := ((List.range n).map (fun c => boolIndex (arrays.getD c []) (specMaskChrom isz sp c))).flatten
    let okPts := pts.all (fun x => decide (0 ≤ x.2) && decide (x.2.toNat < sizes.getD x.1 0))
    pure (reply (optJ id m) (some (if okPts then mk arrays sAt sBool else raised)))
  | "binned" =>
    let pts ← getPairs j "pts"
    let b ← getNat j "bin"
    let f := fun (d : List (List Nat)) => Json.mkObj [("dict", natListList d), ("get", natListList d)]
    let p' := pts.map (fun x => (encodeIdx ign x.1, x.2.toNat))
    let ps := pts.map (fun x => (rankOf ign x.1, x.2.toNat))
    let inside := pts.all (fun x => decide (0 ≤ x.2) && decide (x.2.toNat < sizes.getD x.1 0) && !(ign.getD x.1 false))
    let m := if pts.all (fun x => decide (0 ≤ x.2)) then binnedChecked b isz p' else none
    pure (reply (optJ f m) (some (if inside then f (specBinned b isz ps) else raised)))
  | "maploc" =>
    let ivs ← getIvs j
    let pts ← getPairs j "pts"
    let f := fun (l : List (Nat × Int)) => Json.mkObj [("map", intListList (l.map (fun x => [(x.1 : Int), x.2])))]
    let p' := pts.map (fun x => (encodeIdx ign x.1, x.2.toNat))
    let ps := pts.map (fun x => (rankOf ign x.1, x.2.toNat))
    if pts.any (fun x => decide (x.2 < 0)) then pure (reply raised (some raised)) else
    let okPts := pts.all (fun x => decide (x.2.toNat < sizes.getD x.1 0))
    pure (reply (optJ f (mapLocs false isz (maskData ign ivs) p')) (some (if okPts then f (specMapLocs (specMask ign ivs) ps) else raised)))
  | "gjaccard" =>
    let sets ← (← getArr j "sets").mapM (fun v => do (← v.getArr?).toList.mapM parseIv)
    let masks := Base.omap (fun s => maskGlobal isz (maskData ign s)) sets
    let cnt := fun (a b : List Nat) => natList [interCount a b, unionCount a b]
    let m := masks.map (fun ms => Json.mkObj [("pair", cnt (ms.getD 0 []) (ms.getD 1 [])),
      ("all", Json.arr (ms.map (fun a => Json.arr (ms.map (fun b => cnt a b)).toArray)).toArray)])
    pure (reply (optJ id m) none)
  | "locsort" =>
    let pts ← getPairs j "pts"
    let f := fun (a b : List (Nat × Nat)) => Json.mkObj [("sorted", natListList (a.map (fun x => [x.1, x.2]))),
      ("rev", natListList (b.map (fun x => [x.1, x.2])))]
    let p' := pts.map (fun x => (encodeIdx ign x.1, x.2.toNat))
    let ps := pts.map (fun x => (rankOf ign x.1, x.2.toNat))
    let ins := insSorted (ps.map (fun x => [x.1, x.2]))
    pure (reply (f (sortLocs p') p'.reverse)
      (some (Json.mkObj [("sorted", natListList ins), ("rev", natListList (ps.reverse.map (fun x => [x.1, x.2])))])))
  | "fromtrack" =>
    let ivs ← getIvs j
    let f := fun (chroms : List (List Nat)) =>
      let runs := (chroms.zipIdx.map (fun cd => (onesRuns cd.1).map (fun r => [cd.2, r.1, r.2]))).flatten
      Json.mkObj [("runs", natListList runs), ("n", nat runs.length)]
    let m := (maskGlobal isz (maskData ign ivs)).map (fun d => f (toDict isz d))
    let sp := specMask ign ivs
    pure (reply (optJ id m) (some (f ((List.range n).map (specMaskChrom isz sp)))))
  | "seq" =>
    let ivs ← getIvs j
    let stranded ← getBool j "stranded"
    let seqs ← getNatListList j "codes"
    let arrays := ((seqs.zip ign).filter (fun y => !y.2)).map (·.1)
    let f := fun (rows : List (List Nat)) => Json.mkObj [("rows", natListList rows)]
    if (← ivsRefused j ign) then pure (reply raised none) else
    pure (reply (optJ f (Base.omap (extractSeqRow isz arrays.flatten stranded) (maskData ign ivs))) none)
  | _ => throw s!"C10: unknown op {op}"

end Drv.C10
