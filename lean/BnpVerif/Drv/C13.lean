import BnpVerif.Proto
import BnpVerif.Model.C13
namespace Drv.C13
open Lean Proto _root_.C13

def strOf (bs : List Nat) : String := String.ofList (bs.map Char.ofNat)
def strRows (l : List (List (List Nat))) : Json := Json.arr (l.map (fun r => Json.arr (r.map (fun s => str (strOf s))).toArray)).toArray
def errJ (k : String) : Json := Json.mkObj [("err", str k)]
def bitsOf (f : Float) : Nat := f.toBits.toNat
def ofBits (n : Nat) : Float := Float.ofBits (UInt64.ofNat n)
def letters (alphabet : List Nat) (win : List Nat) : List Nat := win.map (fun d => alphabet.getD d 0)

def handle (op : String) (j : Json) : Except String Json := do
  let alphabet ← getNatList j "alphabet"
  let n := alphabet.length
  match op with
  | "kmers" =>
    let rows ← getNatListList j "rows"
    let k ← getNat j "k"
    let km := getKmersDispatch n k rows        -- packed path for 4-letter alphabets, generic otherwise
    let text := (j.getObjValAs? Bool "text").toOption.getD true
    let m := if text then Json.mkObj [("rows", intListList km), ("text", strRows (km.map (·.map (fun h => render alphabet k h.toNat))))]
             else Json.mkObj [("rows", intListList km)]
    let sr := intListList (spec k (fun win => (hashLE n win : Int)) rows)
    let s := if text then Json.mkObj [("rows", sr), ("text", strRows (spec k (letters alphabet) rows))]
             else Json.mkObj [("rows", sr)]
    pure (reply m (some s))
  | "minimizers" =>
    let rows ← getNatListList j "rows"
    let k ← getNat j "k"
    let w ← getNat j "w"
    let m := match minimizers n k w rows with
      | some r => Json.mkObj [("rows", intListList r)]
      | none => errJ "other:ValueError"
    let s := Json.mkObj [("rows", intListList
      (spec w (fun win => (minInt (windows k (fun x => (hashLE n x : Int)) win)).getD 0) rows))]
    pure (reply m (some s))
  | "match" =>
    let rows ← getNatListList j "rows"
    let pat ← getNatList j "pat"
    let m := Json.mkObj [("rows", Json.arr ((matchString pat rows).map boolList).toArray)]
    let s := Json.mkObj [("rows", Json.arr ((spec pat.length (fun win => win == pat) rows).map boolList).toArray)]
    pure (reply m (some s))
  | "match_same" =>
    let rows ← getNatListList j "rows"
    let pat ← getNatList j "pat"
    let w := pat.length
    let N := rows.flatten.length
    -- what the comparison returns on the windows that run past the buffer is unspecified: any tail will do
    let tail := List.replicate (N - (N + 1 - w)) true
    let m := Json.mkObj [("rows", Json.arr ((rollingSame w (matchWin pat) false tail rows).map boolList).toArray)]
    let s := Json.mkObj [("rows", Json.arr ((specSame w (fun win => win == pat) false rows).map boolList).toArray)]
    pure (reply m (some s))
  | "regex" | "fixedregex" =>
    let rows ← getNatListList j "rows"
    let raw ← getNatListList j "items"
    let items ← raw.mapM (fun x => match x with
      | [0] => pure (Item.elem Elem.any)
      | 1 :: cs => pure (Item.elem (Elem.oneOf cs))
      | [2, a, b] => pure (Item.gap a b)
      | _ => throw "bad pattern item")
    if op == "regex" then
      let m := Json.mkObj [("rows", Json.arr ((regexMatch items rows).map boolList).toArray)]
      let s := Json.mkObj [("rows", Json.arr ((specRegex items rows).map boolList).toArray)]
      pure (reply m (some s))
    else
      let pat := items.filterMap (fun i => match i with | .elem e => some e | _ => none)
      let m := Json.mkObj [("rows", Json.arr ((fixedRegex pat rows).map boolList).toArray)]
      let s := Json.mkObj [("rows", Json.arr ((spec pat.length (matchFixed pat) rows).map boolList).toArray)]
      pure (reply m (some s))
  | "pwm_old" =>
    let rows ← getNatListList j "rows"
    let mat := (← getNatListList j "matrix").map (·.map ofBits)
    let m := Json.mkObj [("rows", natListList ((motifScoresRolling Float.add (0.0 : Float) mat rows).map (·.map bitsOf)))]
    let s := Json.mkObj [("rows", natListList ((specMotifScores Float.add (0.0 : Float) mat rows).map (·.map bitsOf)))]
    pure (reply m (some s))
  | "count_add" =>
    let parts ← (← getArr j "parts").mapM (fun p => do
      let a ← p.getArr?
      a.toList.mapM asNatList)
    let k ← getNat j "k"
    let m := Json.mkObj [("counts", natList (parts.foldl (fun acc rows => addCounts acc (countKmers n k rows))
      (List.replicate (n ^ k) 0)))]
    let s := Json.mkObj [("counts", natList (specCountKmers n k parts.flatten))]
    pure (reply m (some s))
  | "pwm" =>
    let rows ← getNatListList j "rows"
    let mat := (← getNatListList j "matrix").map (·.map ofBits)
    let m := Json.mkObj [("rows", natListList ((motifScores Float.add (0.0 : Float) mat rows).map (·.map bitsOf)))]
    let s := Json.mkObj [("rows", natListList ((specMotifScores Float.add (0.0 : Float) mat rows).map (·.map bitsOf)))]
    pure (reply m (some s))
  | "count" =>
    let rows ← getNatListList j "rows"
    let k ← getNat j "k"
    let perRow ← getBool j "per_row"
    let labels := Json.arr ((List.range (n ^ k)).map (fun h => str (strOf (render alphabet k h)))).toArray
    let mlabels := fun (l : List (List Nat)) => Json.arr (l.map (fun t => str (strOf t))).toArray
    let m := if perRow then
        let lc := countKmersRowsLabeled alphabet k rows
        Json.mkObj [("counts", natListList lc.2), ("labels", mlabels lc.1)]
      else
        let lc := countKmersLabeled alphabet k rows
        Json.mkObj [("counts", natList lc.2), ("labels", mlabels lc.1)]
    let sp := spec k (fun win => (hashLE n win : Int)) rows
    let s := Json.mkObj [("counts", if perRow then natListList (sp.map (bincount (n ^ k))) else natList (bincount (n ^ k) sp.flatten)),
                         ("labels", labels)]
    pure (reply m (some s))
  | "kenc" =>
    let kms ← getNatListList j "kmers"
    let k ← getNat j "k"
    let hs := kms.map (kmerHash n)
    let m := Json.mkObj [("codes", intList hs), ("text", Json.arr (hs.map (fun h => str (strOf (render alphabet k h.toNat)))).toArray),
                         ("inverse", natListList (hs.map (fun h => kmerInverse n k h.toNat)))]
    let s := Json.mkObj [("codes", intList (kms.map (fun x => (hashLE n x : Int)))),
                         ("text", Json.arr (kms.map (fun x => str (strOf (letters alphabet x)))).toArray),
                         ("inverse", natListList kms)]
    pure (reply m (some s))
  | _ => throw s!"C13: unknown op {op}"

end Drv.C13
