import BnpVerif.Proto
import BnpVerif.Model.C08
import BnpVerif.Model.C09
namespace Drv.C09
open Lean Proto _root_.C09 Base.Rle

def toRecs (ll : List (List Int)) : Except String (List (Rec Int)) :=
  ll.mapM (fun l => match l with
    | [s, e, v] => pure (s.toNat, e.toNat, v)
    | _ => throw "record must be [start, stop, value]")

def toCRecs (ll : List (List Int)) : Except String (List (Nat × Rec Int)) :=
  ll.mapM (fun l => match l with
    | [c, s, e, v] => pure (c.toNat, s.toNat, e.toNat, v)
    | _ => throw "record must be [chrom, start, stop, value]")

/-- floats are reported as bit patterns with -0.0 mapped to +0.0 (equal under IEEE ==; see assumptions) -/
def nz (kind : String) (l : List Int) : List Int :=
  if kind == "float" then l.map (fun v => if v == 9223372036854775808 then 0 else v) else l

def rleJ (kind : String) (r : Rle Int) : Json :=
  Json.mkObj [("events", natList r.events), ("values", intList (nz kind r.values)), ("dense", intList (nz kind (denseKind kind r)))]

def getOptNat (j : Json) (k : String) : Except String (Option Nat) := do
  match j.getObjVal? k with
  | .ok Json.null => pure none
  | .ok v => pure (some (← v.getNat?))
  | .error _ => pure none

/-- per-chromosome observations of a genome-wide array: `to_dict()` and `get_data()` -/
def observe (sizes : List Nat) (r : Rle Int) (kind : String) : Json :=
  let sl := chromSlices sizes r
  let dict := sl.map (fun s => nz kind (denseKind kind s))
  let data : List (List Int) := (sl.zipIdx.map (fun (s, i) =>
    if kind == "bool" then (dataIntervals (mapRle (· != 0) s)).map (fun x => [(i : Int), (x.1 : Int), (x.2 : Int)])
    else (dataRecs s).map (fun x => [(i : Int), (x.1 : Int), (x.2.1 : Int)] ++ nz kind [x.2.2]))).flatten
  Json.mkObj [("dict", intListList dict), ("data", intListList data)]

def specObserve (kind : String) (sizes : List Nat) (leaf : List (Nat × Rec Int)) : Json :=
  let d := (sizes.zipIdx.map (fun (sz, i) =>
    nz kind (specDense (0 : Int) ((leaf.filter (fun x => x.1 == i)).map (·.2)) sz)))
  Json.mkObj [("dict", intListList d)]

def leafTrack (sizes : List Nat) (recs : List (Nat × Rec Int)) : Rle Int :=
  fromBedgraph (0 : Int) (toGlobal sizes recs) (some (sizes.sum))

def leafMask (sizes : List Nat) (ivs : List (Nat × Rec Int)) : Rle Int :=
  let g := (toGlobal sizes ivs).map (fun x => (x.1, x.2.1))
  mapRle b2i (_root_.C08.mask g (sizes.sum))

/-- `GenomicIntervals.get_pileup()`: counting is npstructures' (specified: per-base count); run boundaries of the
external result are not modelled, so for these leaves only dense values are compared -/
def leafPileup (sizes : List Nat) (ivs : List (Nat × Rec Int)) : Rle Int :=
  let g := (toGlobal sizes ivs).map (fun x => (x.1, x.2.1))
  canonRle ((_root_.C08.getPileup _root_.C08.specPileup g sizes.sum).map Int.ofNat)

def binOp? (f : String) : Except String BinOp :=
  match f with
  | "add" => pure .add | "sub" => pure .sub | "mul" => pure .mul | "lt" => pure .lt | "gt" => pure .gt
  | "eq" => pure .eq | "and" => pure .and | "or" => pure .or
  | _ => throw s!"unknown binary ufunc {f}"

def unOp? (f : String) : Except String UnOp :=
  match f with
  | "neg" => pure .neg | "not" => pure .not
  | _ => throw s!"unknown unary ufunc {f}"

/-- JSON → the model's `Expr` (parsing only; evaluation is `Expr.eval` in the model) -/
partial def parseExpr (t : Json) : Except String Expr := do
  let tag ← getStr t "t"
  match tag with
  | "leaf" => pure (.leaf (← getNat t "i"))
  | "un" => pure (.un (← unOp? (← getStr t "f")) (← parseExpr (← t.getObjVal? "a")))
  | "bin" => pure (.bin (← binOp? (← getStr t "f")) (← parseExpr (← t.getObjVal? "a")) (← parseExpr (← t.getObjVal? "b")))
  | "scr" => pure (.scr (← binOp? (← getStr t "f")) (← parseExpr (← t.getObjVal? "a")) (← getInt t "k"))
  | "scl" => pure (.scl (← binOp? (← getStr t "f")) (← getInt t "k") (← parseExpr (← t.getObjVal? "a")))
  | _ => throw s!"tree tag {tag}"

def evalTree (leaves : Array GArr) (t : Json) : Except String GArr := do
  match (← parseExpr t).eval leaves.toList with
  | some g => pure g
  | none => throw "ill-typed expression tree or leaf index out of range"

/-! float expression trees: parsed into the model's `FExpr` -/

def fOp? (f : String) : Except String FOp :=
  match f with
  | "add" => pure .add | "sub" => pure .sub | "mul" => pure .mul
  | _ => throw s!"unknown float ufunc {f}"

def fCmp? (f : String) : Except String FCmp :=
  match f with
  | "lt" => pure .lt | "gt" => pure .gt | "eq" => pure .eq
  | _ => throw s!"unknown comparison {f}"

def fscalar (v : Json) : Except String FVal := do
  match v with
  | Json.num n => pure ⟨n.toFloat.toBits⟩
  | _ => throw "scalar"

partial def parseFExpr (t : Json) : Except String (FExpr FVal) := do
  let tag ← getStr t "t"
  match tag with
  | "leaf" => pure (.leaf (← getNat t "i"))
  | "un" => pure (.neg (← parseFExpr (← t.getObjVal? "a")))
  | "bin" => pure (.bin (← fOp? (← getStr t "f")) (← parseFExpr (← t.getObjVal? "a")) (← parseFExpr (← t.getObjVal? "b")))
  | "scr" => pure (.scr (← fOp? (← getStr t "f")) (← parseFExpr (← t.getObjVal? "a")) (← fscalar (← t.getObjVal? "k")))
  | _ => throw s!"float tree tag {tag}"

def evalTreeF (leaves : Array (Rle FVal)) (t : Json) : Except String (Rle FVal) := do
  pure ((← parseFExpr t).eval leaves.toList)

def normBits (b : UInt64) : Int := if b == 0x8000000000000000 then 0 else Int.ofNat b.toNat

def handle (op : String) (j : Json) : Except String Json := do
  match op with
  | "rle_bedgraph" =>
    let recs ← toRecs (← getIntListList j "recs")
    let size ← getOptNat j "size"
    let kind ← getStr j "kind"
    let r := fromBedgraph (0 : Int) recs size
    let n := match size with | some n => n | none => lastStop recs
    pure (reply (rleJ kind r) (some (Json.mkObj [("dense", intList (nz kind (specDense (0 : Int) recs n)))])))
  | "from_intervals_arr" =>
    let recs ← toRecs (← getIntListList j "recs")
    let size ← getNat j "size"
    let kind ← getStr j "kind"
    -- values and default arrive in the common result type `np.result_type(values, default_value)`
    let dflt : Int := match getInt j "dflt" with | .ok v => v | .error _ => 0
    let r := fromIntervalsArr (recs.map (·.1)) (recs.map (·.2.1)) size (recs.map (·.2.2)) dflt
    pure (reply (rleJ kind r) (some (Json.mkObj [("dense", intList (nz kind (specDense dflt recs size)))])))
  | "track" | "geo_track" | "track_from_dict" =>
    let sizes ← getNatList j "sizes"
    let recs ← toCRecs (← getIntListList j "recs")
    let kind ← getStr j "kind"
    pure (reply (observe sizes (leafTrack sizes recs) kind) (some (specObserve kind sizes recs)))
  | "expr" =>
    let sizes ← getNatList j "sizes"
    let leavesJ ← getArr j "leaves"
    let leaves ← leavesJ.mapM (fun l => do
      let k ← getStr l "kind"
      let recs ← toCRecs (← getIntListList l "recs")
      if k == "mask" then pure (GArr.mk (leafMask sizes recs) true)
      else if k == "pileup" then pure (GArr.mk (leafPileup sizes recs) false)
      else pure (GArr.mk (leafTrack sizes recs) false))
    let g ← evalTree leaves.toArray (← j.getObjVal? "tree")
    let obs := observe sizes g.rle (if g.isBool then "bool" else "int")
    let idx ← match j.getObjVal? "idx" with
      | .ok (Json.null) => pure []
      | .ok t => do
        let mk ← evalTree leaves.toArray t
        pure [("idx", intList (selectMask (denseInt g.rle g.isBool) ((denseInt mk.rle true).map (· != 0))))]
      | .error _ => pure []
    let red := idx ++ match j.getObjVal? "red" with
      | .ok (Json.str "sum") => [("sum", int (sumRle g.rle))]
      | .ok (Json.arr bins) =>
        match (bins.toList.mapM (·.getInt?)) with
        | .ok b => [("hist", intList (histRle g.rle b))]
        | .error _ => []
      | _ => []
    -- `gsize`: the genome size the arrays are laid out on = the sum of the INCLUDED chromosome sizes
    pure (reply (obs.mergeObj (Json.mkObj ([("bool", Json.bool g.isBool), ("gsize", nat sizes.sum)] ++ red))))
  | "expr_f" =>
    let sizes ← getNatList j "sizes"
    let leavesJ ← getArr j "leaves"
    let leaves ← leavesJ.mapM (fun l => do
      let k ← getStr l "kind"
      let recs ← toCRecs (← getIntListList l "recs")
      let r := leafTrack sizes recs
      if k == "float" then pure (mapRle (fun (v : Int) => FVal.mk (UInt64.ofNat v.toNat)) r)
      else pure (mapRle (fun (v : Int) => FVal.mk (Float.ofInt v).toBits) r))
    let tree ← j.getObjVal? "tree"
    let isCmp := (match getStr tree "t", getStr tree "f" with
      | .ok "bin", .ok f => ["lt", "gt", "eq"].contains f
      | _, _ => false)
    if isCmp then
      let a ← evalTreeF leaves.toArray (← tree.getObjVal? "a")
      let b ← evalTreeF leaves.toArray (← tree.getObjVal? "b")
      let g := zipRle (← fCmp? (← getStr tree "f")).fn a b
      pure (reply ((observe sizes (mapRle b2i g) "bool").mergeObj (Json.mkObj [("bool", Json.bool true)])))
    else
      let g ← evalTreeF leaves.toArray tree
      -- values as normalised bit patterns; the 64-bit words go through the same xor-accumulate expansion
      let r : Rle Int := mapRle (fun v => normBits v.bits) g
      pure (reply ((observe sizes r "float").mergeObj (Json.mkObj [("bool", Json.bool false)])))
  | "rle_to_array" =>
    -- the constructor's arguments as given; values are the machine words of the dtype (float16/32/64 views, int64, bool)
    let events ← getNatList j "events"
    let values ← getIntList j "values"
    let kind ← getStr j "kind"
    let r : Rle Int := ⟨events, values⟩
    -- the bit pattern of -0.0 for the dtype (2^15 / 2^31 / 2^63), reported as +0.0
    let negz : Int := match getInt j "negzero" with | .ok v => v | .error _ => (2 : Int) ^ 70
    let nzl := fun (l : List Int) => l.map (fun v => if v == negz then 0 else v)
    let recs := (dataRecs r).map (fun x => [(x.1 : Int), (x.2.1 : Int)] ++ nzl [x.2.2])
    pure (reply (Json.mkObj [("dense", intList (nzl (denseKind kind r))), ("bedgraph", intListList recs)])
      (some (Json.mkObj [("dense", intList (nzl r.toDense))])))
  | "extract" =>
    let sizes ← getNatList j "sizes"
    let recs ← toCRecs (← getIntListList j "recs")
    let stranded ← getBool j "stranded"
    let ivs ← getNatListList j "ivs"
    let locs ← getNatListList j "locs"
    let r := leafTrack sizes recs
    let offs := offsets sizes
    let rows ← ivs.mapM (fun l => match l with
      | [c, a, b, f] => (pure (offs.getD c 0 + a, offs.getD c 0 + b, f == 1) : Except String (Nat × Nat × Bool))
      | _ => throw "interval must be [chrom, start, stop, fwd]")
    let ps ← locs.mapM (fun l => match l with
      | [c, p] => (pure (offs.getD c 0 + p) : Except String Nat)
      | _ => throw "location must be [chrom, pos]")
    -- specification side: the dense genome straight from the records (`specDense` per chromosome), not from the model
    let dense := (sizes.zipIdx.map (fun (sz, i) =>
      specDense (0 : Int) ((recs.filter (fun x => x.1 == i)).map (·.2)) sz)).flatten
    pure (reply (Json.mkObj [("rows", intListList (extractRows r rows stranded)),
        ("at", intList (ps.map (fun p => (valueAtPos r p).getD 0)))])
      (some (Json.mkObj [("rows", intListList (rows.map (fun x =>
          let d := (dense.drop x.1).take (x.2.1 - x.1)
          if stranded && !x.2.2 then d.reverse else d))),
        ("at", intList (ps.map (fun p => dense.getD p 0)))])))
  | "big" =>
    -- genomes far beyond 2^32 bases: nothing dense is built; records (`get_data`), per-chromosome sums, interval rows
    let sizes ← getNatList j "sizes"
    let recs ← toCRecs (← getIntListList j "recs")
    let ivs ← getNatListList j "ivs"
    let r := leafTrack sizes recs
    let sl := chromSlices sizes r
    let data : List (List Int) := (sl.zipIdx.map (fun (s, i) =>
      (dataRecs s).map (fun x => [(i : Int), (x.1 : Int), (x.2.1 : Int), x.2.2]))).flatten
    let offs := offsets sizes
    let rows ← ivs.mapM (fun l => match l with
      | [c, a, b] => (pure (offs.getD c 0 + a, offs.getD c 0 + b, true) : Except String (Nat × Nat × Bool))
      | _ => throw "interval must be [chrom, start, stop]")
    pure (reply (Json.mkObj [("data", intListList data), ("sum", int (sumRle r)),
      ("chrom_sums", intList (sl.map sumRle)), ("chrom_len", natList (sl.map Rle.len)),
      ("rows", intListList (extractRows r rows false))]))
  | _ => throw s!"C09: unknown op {op}"

end Drv.C09
