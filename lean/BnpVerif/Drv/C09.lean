import BnpVerif.Proto
import BnpVerif.Model.C08
import BnpVerif.Model.C09
namespace Drv.C09
open Lean Proto _root_.C09 Base.Rle

def toRecs (ll : List (List Int)) : Except String (List (Rec Int)) :=
  ll.mapM (fun l => match l with
    | [s, e, v] => pure (s.toNat, e.toNat, v)
    | _ => throw "record must be [start, stop, value]")

def toCRecs (ll : List (List Int)) : Except String (List (Nat × Rec Int)) :=
  ll.mapM (fun l => match l with
    | [c, s, e, v] => pure (c.toNat, s.toNat, e.toNat, v)
    | _ => throw "record must be [chrom, start, stop, value]")

/-- values are sent as integers: int64 values for kind "int", the uint64 view for kind "float", 0/1 for "bool" -/
def denseKind (kind : String) (r : Rle Int) : List Int :=
  if kind == "float" then ((mapRle Int.toNat r).toArray Nat.xor 0).map Int.ofNat
  else if kind == "bool" then denseInt r true
  else toArrayInt r

def rleJ (kind : String) (r : Rle Int) : Json :=
  Json.mkObj [("events", natList r.events), ("values", intList r.values), ("dense", intList (denseKind kind r))]

def getOptNat (j : Json) (k : String) : Except String (Option Nat) := do
  match j.getObjVal? k with
  | .ok Json.null => pure none
  | .ok v => pure (some (← v.getNat?))
  | .error _ => pure none

/-- per-chromosome observations of a genome-wide array: `to_dict()` and `get_data()` -/
def observe (sizes : List Nat) (r : Rle Int) (kind : String) : Json :=
  let sl := chromSlices sizes r
  let dict := sl.map (denseKind kind)
  let data : List (List Int) := (sl.zipIdx.map (fun (s, i) =>
    if kind == "bool" then (dataIntervals (mapRle (· != 0) s)).map (fun x => [(i : Int), (x.1 : Int), (x.2 : Int)])
    else (dataRecs s).map (fun x => [(i : Int), (x.1 : Int), (x.2.1 : Int), x.2.2]))).flatten
  Json.mkObj [("dict", intListList dict), ("data", intListList data)]

def specObserve (sizes : List Nat) (leaf : List (Nat × Rec Int)) : Json :=
  let d := (sizes.zipIdx.map (fun (sz, i) =>
    specDense (0 : Int) ((leaf.filter (fun x => x.1 == i)).map (·.2)) sz))
  Json.mkObj [("dict", intListList d)]

def leafTrack (sizes : List Nat) (recs : List (Nat × Rec Int)) : Rle Int :=
  fromBedgraph (0 : Int) (toGlobal sizes recs) (some (sizes.sum))

def leafMask (sizes : List Nat) (ivs : List (Nat × Rec Int)) : Rle Int :=
  let g := (toGlobal sizes ivs).map (fun x => (x.1, x.2.1))
  mapRle b2i (_root_.C08.mask g (sizes.sum))

partial def evalTree (leaves : Array GArr) (t : Json) : Except String GArr := do
  let tag ← getStr t "t"
  match tag with
  | "leaf" =>
    let i ← getNat t "i"
    match leaves[i]? with
    | some g => pure g
    | none => throw "leaf index"
  | "un" => pure (GArr.unary (← getStr t "f") (← evalTree leaves (← t.getObjVal? "a")))
  | "bin" => pure (GArr.binary (← getStr t "f") (← evalTree leaves (← t.getObjVal? "a")) (← evalTree leaves (← t.getObjVal? "b")))
  | "scr" => pure (GArr.scalarR (← getStr t "f") (← evalTree leaves (← t.getObjVal? "a")) (← getInt t "k"))
  | "scl" => pure (GArr.scalarL (← getStr t "f") (← getInt t "k") (← evalTree leaves (← t.getObjVal? "a")))
  | _ => throw s!"tree tag {tag}"

def handle (op : String) (j : Json) : Except String Json := do
  match op with
  | "rle_bedgraph" =>
    let recs ← toRecs (← getIntListList j "recs")
    let size ← getOptNat j "size"
    let kind ← getStr j "kind"
    let r := fromBedgraph (0 : Int) recs size
    let n := match size with | some n => n | none => lastStop recs
    pure (reply (rleJ kind r) (some (Json.mkObj [("dense", intList (specDense (0 : Int) recs n))])))
  | "from_intervals_arr" =>
    let recs ← toRecs (← getIntListList j "recs")
    let size ← getNat j "size"
    let kind ← getStr j "kind"
    let r := fromIntervalsArr (recs.map (·.1)) (recs.map (·.2.1)) size (recs.map (·.2.2)) (0 : Int)
    pure (reply (rleJ kind r) (some (Json.mkObj [("dense", intList (specDense (0 : Int) recs size))])))
  | "track" | "geo_track" =>
    let sizes ← getNatList j "sizes"
    let recs ← toCRecs (← getIntListList j "recs")
    let kind ← getStr j "kind"
    pure (reply (observe sizes (leafTrack sizes recs) kind) (some (specObserve sizes recs)))
  | "expr" =>
    let sizes ← getNatList j "sizes"
    let leavesJ ← getArr j "leaves"
    let leaves ← leavesJ.mapM (fun l => do
      let k ← getStr l "kind"
      let recs ← toCRecs (← getIntListList l "recs")
      if k == "mask" then pure (GArr.mk (leafMask sizes recs) true)
      else pure (GArr.mk (leafTrack sizes recs) false))
    let g ← evalTree leaves.toArray (← j.getObjVal? "tree")
    let obs := observe sizes g.rle (if g.isBool then "bool" else "int")
    let red := match j.getObjVal? "red" with
      | .ok (Json.str "sum") => [("sum", int (sumRle g.rle))]
      | .ok (Json.arr bins) =>
        match (bins.toList.mapM (·.getInt?)) with
        | .ok b => [("hist", intList (histRle g.rle b))]
        | .error _ => []
      | _ => []
    pure (reply (obs.mergeObj (Json.mkObj ([("bool", Json.bool g.isBool)] ++ red))))
  | _ => throw s!"C09: unknown op {op}"

end Drv.C09
