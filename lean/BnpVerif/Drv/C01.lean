import BnpVerif.Proto
import BnpVerif.Model.C01
namespace Drv.C01
open Lean Proto _root_.C01

def fmtOf (n : String) : Except String Fmt :=
  match n with
  | "k1" => pure (Fmt.kLine 1)
  | "k2" => pure (Fmt.kLine 2)
  | "k4" => pure (Fmt.kLine 4)
  | "fasta" => pure Fmt.fasta
  | _ => throw s!"unknown fmt {n}"

def handle (op : String) (j : Json) : Except String Json := do
  match op with
  | "chunks" =>
    let F ← fmtOf (← getStr j "fmt")
    let mode := if (← getStr j "mode") == "carry" then Mode.carry else Mode.seek
    let file ← getNatList j "file"
    let k ← getNat j "k"
    match (j.getObjValAs? Nat "cap").toOption with
    | some cap =>
      -- max_chunk_size given: the read may refuse; when it completes it must deliver the whole file
      match readAllCap F true mode file k cap with
      | some cs => pure (reply (Json.mkObj [("chunks", natListList cs)]) (some (Json.mkObj [("flat", natList (norm file))])))
      | none => pure (reply (Json.mkObj [("err", str "cap")]) (some (Json.mkObj [("err", str "cap")])))
    | none =>
      let cs := readAll F true mode file k
      pure (reply (Json.mkObj [("chunks", natListList cs)]) (some (Json.mkObj [("flat", natList (norm file))])))
  | "whole" =>
    let F ← fmtOf (← getStr j "fmt")
    let file ← getNatList j "file"
    pure (reply (Json.mkObj [("data", natList (readWhole F file))]) (some (Json.mkObj [("data", natList (norm file))])))
  | _ => throw s!"C01: unknown op {op}"
end Drv.C01
