import BnpVerif.Proto
import BnpVerif.Model.C11
namespace Drv.C11
open Lean Proto _root_.C11

def errJ (k : String) : Json := Json.mkObj [("err", str k)]

def asNatLL (v : Json) : Except String (List (List Nat)) := do
  let a ← v.getArr?
  a.toList.mapM asNatList

def getNatLLL (j : Json) (k : String) : Except String (List (List (List Nat))) := do
  let a ← (← j.getObjVal? k).getArr?
  a.toList.mapM asNatLL

/-- all `k`-tuples over `0..3` in lexicographic order -/
def lexTuples (A : Nat) : Nat → List (List Nat)
  | 0 => [[]]
  | k + 1 => (List.range A).flatMap (fun d => (lexTuples A k).map (fun t => d :: t))

def kmerJ (A k : Nat) (counts : List Nat) : Json :=
  Json.arr ((lexTuples A k).filterMap (fun t =>
    let c := counts.getD (hashLE A t) 0
    if c > 0 then some (Json.arr #[natList t, nat c]) else none)).toArray

def groupsJ (gs : List (Nat × List (Nat × Nat))) : Json :=
  Json.arr (gs.map (fun p => Json.arr #[nat p.1, natList (p.2.map (·.2))])).toArray

def asPair (v : Json) : Except String (Nat × Nat) := do
  let l ← asNatList v
  match l with
  | [a, b] => pure (a, b)
  | _ => throw "pair expected"

def getPairLL (j : Json) (k : String) : Except String (List (List (Nat × Nat))) := do
  let a ← (← j.getObjVal? k).getArr?
  a.toList.mapM (fun c => do
    let r ← c.getArr?
    r.toList.mapM asPair)

def parseArg (v : Json) : Except String Arg := do
  match v.getObjVal? "node" with
  | .ok n => pure (.node (← n.getNat?))
  | .error _ => pure (.const (← (← v.getObjVal? "const").getInt?))

def parseNode (v : Json) : Except String NodeDef := do
  let k ← getStr v "k"
  if k == "stream" then
    pure (.stream (← getIntListList v "chunks"))
  else
    let f ← getStr v "f"
    let fn ← match f with
      | "add" => pure Fn.add
      | "sub" => pure Fn.sub
      | "mul" => pure Fn.mul
      | "gt" => pure Fn.gt
      | "sel" => pure Fn.sel
      | "sum" => pure Fn.sum
      | "sumN" => pure Fn.sumN
      | "hist" => pure (Fn.hist (← getIntList v "edges"))
      | _ => throw s!"unknown fn {f}"
    pure (.comp fn (← parseArg (← v.getObjVal? "a")) (← parseArg (← v.getObjVal? "b")))

def gerrJ : GErr → Json
  | .stop => errJ "stop"
  | .assertion => errJ "assertion"
  | .bad => errJ "bad"

/-- the Python exception each model error stands for, named as the harness names exceptions -/
def serrJ : SErr → Json
  | .emptyStream => errJ "other:TypeError"
  | .stop => errJ "stop"
  | .badEdges => errJ "value"
  | .noData => errJ "other:IndexError"
  | .genome => errJ "genome"

def handle (op : String) (j : Json) : Except String Json := do
  match op with
  | "mean" =>
    let cs ← getIntListList j "chunks"
    let f := fun (p : Int × Nat) => Json.mkObj [("sum", int p.1), ("n", nat p.2)]
    let m := match meanStream cs with
      | .ok r => f r
      | .error e => serrJ e
    pure (reply m (some (f (sumAndN cs.flatten))))
  | "bincount" =>
    let cs ← getNatListList j "chunks"
    let ml ← getNat j "minlength"
    let m := match bincountStream ml cs with
      | some r => natList r
      | none => serrJ .emptyStream
    pure (reply m (some (natList (bincount ml cs.flatten))))
  | "histogram" =>
    let cs ← getIntListList j "chunks"
    let edges ← getIntList j "edges"
    let f := fun (r : Except SErr (List Nat × List Int)) => match r with
      | .ok (h, e) => Json.mkObj [("hist", natList h), ("edges", intList e)]
      | .error e => serrJ e
    pure (reply (f (histogramStream edges cs)) (some (f (histogramMem edges cs.flatten))))
  | "count_kmers" =>
    let cs ← getNatLLL j "chunks"
    let k ← getNat j "k"
    let A := match j.getObjVal? "A" with
      | .ok v => (v.getNat?.toOption).getD 4
      | .error _ => 4
    let m := match countKmersStream A k cs with
      | .arr v => kmerJ A k v
      | .zero => errJ "empty"
    pure (reply m (some (kmerJ A k (kmerCounts A k cs.flatten))))
  | "mean_axis0" =>
    let w ← getNat j "w"
    let cs ← (← getArr j "chunks").mapM (fun ch => do
      let rows ← ch.getArr?
      rows.toList.mapM asIntList)
    let m := match meanColsStream w cs with
      | .arr v => intList v
      | .zero => serrJ .emptyStream
    pure (reply m (some (intList (sumAndNCols w cs.flatten))))
  | "rowmean" =>
    -- `streamable()` without reduction: one result per chunk; modelled on the row sums (the division is runtime)
    let cs ← (← getArr j "chunks").mapM (fun ch => do
      let rows ← ch.getArr?
      rows.toList.mapM asIntList)
    let f := fun (rows : List (List Int)) => rows.map List.sum
    pure (reply (intList (mapStream f cs).flatten) (some (intList (f cs.flatten))))
  | "quantile" =>
    let cs ← getNatListList j "chunks"
    let p ← getNat j "qp"
    let d ← getNat j "qd"
    let f := fun (r : Except SErr Nat) => match r with
      | .ok q => nat q
      | .error e => serrJ e
    pure (reply (f (quantileStream cs p d)) (some (f (quantileMem cs.flatten p d))))
  | "groupby" =>
    let cs ← getPairLL j "chunks"
    let fast ← getBool j "fast"
    let m := match groupbyStream fast (fun (x : Nat × Nat) => x.1) cs with
      | some gs => groupsJ gs
      | none => errJ "empty-chunk"
    pure (reply m (some (groupsJ (runs (fun (x : Nat × Nat) => x.1) cs.flatten))))
  | "chunk_entries" | "chunk_lines" =>
    let cs ← getIntListList j "chunks"
    let n ← getNat j "n"
    let r := if op == "chunk_entries" then chunkEntries n cs else chunkLines n cs
    let m := match r with
      | some out => intListList out
      | none => errJ "value"
    pure (reply m (some (if n = 0 then errJ "value" else intListList (chop n cs.flatten))))
  | "chunk_entries_old" | "chunk_lines_old" =>
    let cs ← getIntListList j "chunks"
    let n ← getNat j "n"
    let m := if op == "chunk_entries_old" then intListList (chunkEntriesOld n cs) else
      match chunkLinesOld n cs with
      | some out => intListList out
      | none => errJ "value"
    pure (reply m none)
  | "graph" =>
    let nodes ← (← getArr j "nodes").mapM parseNode
    let root ← getNat j "root"
    let nchunks := nodes.foldl (fun acc d => match d with | .stream cs => max acc cs.length | _ => acc) 0
    let m := match computeGraph nodes root (nchunks + 2) with
      | .ok (v, st) => Json.mkObj [("value", intList v),
          ("pulls", natList ((nodes.zip st).filterMap (fun p => match p.1 with | .stream _ => some p.2.pulls | _ => none)))]
      | .error e => gerrJ e
    let s := match evalMem nodes (root + 1) root with
      | some v => Json.mkObj [("value", intList v)]
      | none => errJ "bad"
    pure (reply m (some s))
  | "pipeline" =>
    let sizes ← getNatList j "sizes"
    let kind ← getStr j "kind"
    let bins ← getNat j "bins"
    let chunks ← (← getArr j "chunks").mapM (fun ch => do
      let rows ← (← ch.getArr?).toList.mapM asNatList
      rows.mapM (fun r => match r with
        | [c, s, e] => pure ({ c := c, s := s, e := e } : C10.Iv)
        | _ => throw "interval expected"))
    let ivs := chunks.flatten
    let peaks ← (← getArr j "peaks").mapM (fun r => do
      match (← asNatList r) with
      | [c, s, e] => pure ({ c := c, s := s, e := e } : C10.Iv)
      | [c, s, e, f] => pure ({ c := c, s := s, e := e, fwd := f == 1 } : C10.Iv)      -- strand: 1 = '+', 0 = '-' or '.'
      | _ => throw "interval expected")
    let stranded := kind == "under_stranded"
    -- get_windows keywords: "wflank" (flank=k) or "wsize" (window_size=w); absent for the other kinds
    let wflank : Option Nat := match j.getObjVal? "wflank" with
      | .ok v => v.getNat?.toOption
      | .error _ => none
    let wsize : Nat := match j.getObjVal? "wsize" with
      | .ok v => (v.getNat?.toOption).getD 0
      | .error _ => 0
    let winJ (ws : List C10.IvZ) : Json := Json.arr (ws.map (fun w => Json.arr #[nat w.c, int w.s, int w.e])).toArray
    let edges : List Int := (List.range (bins + 1)).map (fun (i : Nat) => Int.ofNat i)
    let toI (l : List Nat) : List Int := l.map (fun (n : Nat) => Int.ofNat n)
    let histJ (h : List Nat) : Json := Json.mkObj [("hist", natList h), ("edges", intList edges)]
    let m := match kind with
      | "pileup_data" => (match streamPileupData sizes chunks with | some p => natListList p | none => errJ "genome")
      | "pileup_sum" => (match streamPileupSum sizes chunks with | some n => nat n | none => errJ "genome")
      | "mask_sum" => (match streamMask sizes chunks with | some mk => nat mk.sum | none => errJ "genome")
      | "under" | "under_stranded" => (match streamValues stranded sizes chunks [peaks] with | some rows => natListList rows | none => errJ "genome")
      | "pileup_hist" => (match streamPileupHist edges sizes chunks with | .ok (h, _) => histJ h | .error e => serrJ e)
      | "windows" => (match streamWindows sizes wflank wsize chunks with | some ws => winJ ws | none => errJ "genome")
      | _ => errJ "kind"
    let s := match kind, C10.pileupGlobal sizes ivs, C10.maskGlobal sizes ivs with
      | "windows", _, _ => winJ (ivs.map (fun iv => C10.windowG sizes (C10.flanks wflank wsize) iv.c iv.s true))
      | "pileup_data", some d, _ => natListList (C10.toDict sizes d)
      | "pileup_sum", some d, _ => nat d.sum
      | "mask_sum", _, some mk => nat mk.sum
      | "pileup_hist", some d, _ => histJ (histogram edges (toI d))
      | "under", some d, _ | "under_stranded", some d, _ => (match Base.omap (C10.extractRow sizes d stranded) peaks with | some rows => natListList rows | none => errJ "invalid")
      | _, _, _ => errJ "invalid"
    pure (reply m (some s))
  | "graph_many" =>
    let nodes ← (← getArr j "nodes").mapM parseNode
    let roots ← getNatList j "roots"
    let mode ← getStr j "mode"
    let nchunks := nodes.foldl (fun acc d => match d with | .stream cs => max acc cs.length | _ => acc) 0
    let mem := roots.map (fun r => evalMem nodes (r + 1) r)
    let s := if mem.all (·.isSome) then Json.mkObj [("vals", intListList (mem.map (·.getD [])))] else errJ "bad"
    let m := if mode == "concat" then
        match computeMany nodes roots (nchunks + 2) with
        | .ok (cols, _) => Json.mkObj [("vals", intListList cols)]
        | .error e => gerrJ e
      else
        match computeReduced nodes roots (nchunks + 2) with
        | .ok (some res, _) => Json.mkObj [("vals", intListList res)]
        | .ok (none, _) => errJ "empty"
        | .error e => gerrJ e
    pure (reply m (some s))
  | _ => throw s!"C11: unknown op {op}"

end Drv.C11
