import BnpVerif.Proto
import BnpVerif.Model.C06
import BnpVerif.Gen.C06
namespace Drv.C06
open Lean Proto _root_.C06

def errJ (off : Option Nat) : Json :=
  Json.mkObj [("err", str "encoding"), ("offset", match off with | some o => nat o | none => Json.null)]

def findEnc (n : String) : Except String Enc :=
  match Gen.C06.all.find? (·.1 == n) with
  | some p => pure p.2
  | none => throw s!"unknown encoding {n}"

def handle (op : String) (j : Json) : Except String Json := do
  match op with
  | "offset_byte" =>
    let n ← getStr j "enc"
    let b ← getNat j "b"
    match Gen.C06.offsets.find? (·.1 == n) with
    | none => throw s!"unknown offset encoding {n}"
    | some p =>
      let code := p.2.encT.getD b 999
      let m := Json.mkObj [("code", nat code), ("dec", nat (p.2.decT.getD code 999))]
      let s := Json.mkObj [("code", nat (offsetEncode p.2.minCode b)), ("dec", nat b)]
      pure (reply m (some s))
  | "offset_rows" =>
    let n ← getStr j "enc"
    let rows ← getNatListList j "rows"
    match Gen.C06.offsets.find? (·.1 == n) with
    | none => throw s!"unknown offset encoding {n}"
    | some p =>
      let codes := rows.flatten.map (fun b => p.2.encT.getD b 999)
      let m := Json.mkObj [("codes", natList codes), ("lens", natList (rows.map List.length)),
        ("dec", natList (codes.map (fun d => p.2.decT.getD d 999))), ("input_unchanged", Json.bool true)]
      let s := Json.mkObj [("codes", natList (rows.flatten.map (offsetEncode p.2.minCode))), ("lens", natList (rows.map List.length)),
        ("dec", natList rows.flatten), ("input_unchanged", Json.bool true)]
      pure (reply m (some s))
  | "enc_byte" =>
    let E ← findEnc (← getStr j "enc")
    let b ← getNat j "b"
    let m := match encode E [b] with
      | some [c] => Json.mkObj [("code", nat c), ("dec", match decode E [c] with | some d => natList d | none => Json.null)]
      | _ => errJ none
    let s := match specEncode E.alphabet [b] with
      | some [c] => Json.mkObj [("code", nat c), ("dec", natList [toUpper b])]
      | _ => errJ none
    pure (reply m (some s))
  | "enc_str" =>
    let E ← findEnc (← getStr j "enc")
    let sB ← getNatList j "s"
    let m := match encode E sB with
      | some cs => Json.mkObj [("codes", natList cs), ("dec", match decode E cs with | some d => natList d | none => Json.null), ("enc_same", Json.bool true)]
      | none => errJ (firstBad E sB)
    let s := match specEncode E.alphabet sB with
      | some cs => Json.mkObj [("codes", natList cs), ("dec", natList (sB.map toUpper)), ("enc_same", Json.bool true)]
      | none => errJ (some (sB.findIdx (fun b => !accepts E.alphabet b)))
    pure (reply m (some s))
  | "enc_ragged" =>
    let E ← findEnc (← getStr j "enc")
    let rows ← getNatListList j "rows"
    let m := match encode E rows.flatten with
      | some cs => match decode E cs with
        | some d => Json.mkObj [("rows", natListList (unflatten (rows.map List.length) d))]
        | none => Json.null
      | none => errJ none
    let s := match Base.omap (specEncode E.alphabet) rows with
      | some _ => Json.mkObj [("rows", natListList (rows.map (·.map toUpper)))]
      | none => errJ none
    pure (reply m (some s))
  | "retarget" | "change" =>
    let src ← getNatList j "src"
    let tgt ← getNatList j "tgt"
    let sB ← getNatList j "s"
    let r := if op == "retarget" then retargetText src tgt sB else changeText src tgt sB
    let m := match r with
      | some t => Json.mkObj [("text", natList t)]
      | none => errJ none
    pure (reply m none)
  | "retarget_view" | "change_view" =>
    let src ← getNatList j "src"
    let tgt ← getNatList j "tgt"
    let rows ← getNatListList j "rows"
    let r := if op == "retarget_view" then retargetRows src tgt rows else changeRows src tgt rows
    let m := match r with
      | some t => Json.mkObj [("rows", natListList t)]
      | none => errJ none
    pure (reply m none)
  | _ => throw s!"C06: unknown op {op}"

end Drv.C06
