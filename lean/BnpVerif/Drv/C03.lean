import BnpVerif.Proto
import BnpVerif.Model.C03
import BnpVerif.Gen.C03
namespace Drv.C03
open Lean Proto _root_.C03

def toBytes (s : String) : C02.Bytes := s.toList.map Char.toNat
def txt (b : C02.Bytes) : Json := Json.str (String.ofList (b.map Char.ofNat))

def cellOf (j : Json) : Except String Cell := do
  match j.getObjVal? "t" with
  | .ok v => pure (Cell.text (toBytes (← v.getStr?)))
  | .error _ =>
  match j.getObjVal? "i" with
  | .ok v => pure (Cell.int (← v.getInt?))
  | .error _ =>
  match j.getObjVal? "l" with
  | .ok v => pure (Cell.ints (← asIntList v))
  | .error _ =>
  match j.getObjVal? "q" with
  | .ok v => pure (Cell.qual (← asNatList v))
  | .error _ => throw "bad cell"

def handle (op : String) (j : Json) : Except String Json := do
  match op with
  | "write" =>
    let fmt ← getStr j "fmt"
    let cuts ← getNatList j "cuts"
    let rowsJ ← getArr j "rows"
    let rows ← rowsJ.mapM (fun r => do
      let cs ← r.getArr?
      cs.toList.mapM cellOf)
    let pieces := cutAt rows 0 cuts
    let sessJ ← getArr j "sessions"
    let sessRaw ← sessJ.mapM (fun sj => do
      let m ← getStr sj "m"
      let st ← getBool sj "s"
      let k ← getNat sj "k"
      pure (m, st, k))
    -- hand the pieces to the sessions in order
    let sess : List Sess := (sessRaw.foldl (fun (acc : List Sess × List (List Row)) msk =>
      (acc.1 ++ [⟨if msk.1 == "w" then Mode.write else Mode.append, msk.2.1, acc.2.take msk.2.2⟩], acc.2.drop msk.2.2))
      ([], pieces)).1
    -- delimited buffers with a column-name header line hand their header text over ("hdr")
    let hdrJ := (j.getObjValAs? String "hdr").toOption
    -- (a table that carries a header context of its own hands that text over too; otherwise VCF: the default header)
    let hdr : C02.Bytes := match hdrJ with
      | some h => toBytes h
      | none => if isVcf fmt then Gen.C03.vcfDefaultHeader else []
    let dump := dumpModel Gen.C03.consts fmt
    let bytes := runAll hdr dump [] sess
    let m := Json.mkObj [("bytes", txt bytes)]
    let nh : Nat := if (isVcf fmt || hdrJ.isSome) && sess.flatMap Sess.calls != [] then 1 else 0
    let s := Json.mkObj [("body", txt (dumpCanon fmt rows)), ("headers", nat nh)]
    pure (reply m (some s))
  | _ => throw s!"C03: unknown op {op}"

end Drv.C03
