import BnpVerif.Proto
import BnpVerif.Model.C15
namespace Drv.C15
open Lean Proto _root_.C01 _root_.C15

def out (r : Option Nat) : Json :=
  match r with
  | some l => Json.mkObj [("err", str "format"), ("line", nat l)]
  | none => Json.mkObj [("ok", Json.bool true)]

def handle (op : String) (j : Json) : Except String Json := do
  match op with
  | "kline_read" =>
    let n ← getNat j "n"
    let marker ← getNat j "marker"
    let cp ← getBool j "plus"
    let mode := if (← getStr j "mode") == "carry" then Mode.carry else Mode.seek
    let file ← getNatList j "file"
    let k ← getNat j "k"
    if (← getStr j "via") == "whole" then
      match wholeValidateT n marker cp file with
      | .ok r => pure (reply (out r))
      | _ => pure (reply (Json.mkObj [("err", Json.str "other")]))
    else
      pure (reply (out (readValidateR n marker cp mode file k)))
  | "delim_read" =>
    let mode := if (← getStr j "mode") == "carry" then Mode.carry else Mode.seek
    let file ← getNatList j "file"
    let k ← getNat j "k"
    let bad ← getNatList j "bad"      -- zero-based data lines that do not parse
    let cols ← getNatList j "cols"    -- column count of every data line
    let colcheck ← getBool j "colcheck"   -- false for formats with a variable column count (SAM)
    let flags := (List.range cols.length).map (fun i => !(bad.contains i))
    pure (reply (out (readValidateDelim colcheck cols flags mode file k)))
  | "row_matrix" =>
    pure (reply (nat (rowOfOffsetMatrix (← getNat j "w") (← getNat j "offset"))))
  | "row_ragged" =>
    pure (reply (nat (rowOfOffsetRagged (← getNatList j "lengths") (← getNat j "offset"))))
  | _ => throw s!"C15: unknown op {op}"
end Drv.C15
