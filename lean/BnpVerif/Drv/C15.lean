import BnpVerif.Proto
import BnpVerif.Model.C15
namespace Drv.C15
open Lean Proto _root_.C01 _root_.C15

def out (r : Option Nat) : Json :=
  match r with
  | some l => Json.mkObj [("err", str "format"), ("line", nat l)]
  | none => Json.mkObj [("ok", Json.bool true)]

def handle (op : String) (j : Json) : Except String Json := do
  match op with
  | "kline_read" =>
    let n ← getNat j "n"
    let marker ← getNat j "marker"
    let cp ← getBool j "plus"
    let mode := if (← getStr j "mode") == "carry" then Mode.carry else Mode.seek
    let file ← getNatList j "file"
    let k ← getNat j "k"
    pure (reply (out (readValidate n marker cp mode file k)))
  | "delim_read" =>
    let mode := if (← getStr j "mode") == "carry" then Mode.carry else Mode.seek
    let file ← getNatList j "file"
    let k ← getNat j "k"
    let bad ← getNatList j "bad"      -- zero-based data lines that do not parse
    let chunks := readAll (Fmt.kLine 1) true mode file k
    -- rows of each chunk, flagged good/bad by their global line index
    let (_, flagged) := chunks.foldl (fun (acc : Nat × List (List Bool)) c =>
      let nl := countNL c
      (acc.1 + nl, acc.2 ++ [(List.range nl).map (fun i => !(bad.contains (acc.1 + i)))])) (0, [])
    let cols ← getNatList j "cols"    -- column count of every data line
    let colcheck ← getBool j "colcheck"   -- false for formats with a variable column count (SAM)
    let (_, colChunks) := chunks.foldl (fun (acc : Nat × List (List Nat)) c =>
      let nl := countNL c
      (acc.1 + nl, acc.2 ++ [(cols.drop acc.1).take nl])) (0, [])
    -- column validation happens when the buffer is made, value parsing when its fields are read:
    -- per chunk, a column error of that chunk precedes its parse error
    let rec go (before : Nat) (cc : List (List Nat)) (ff : List (List Bool)) : Option Nat :=
      match cc, ff with
      | c :: cs, f :: fs =>
        match (if colcheck then firstIrregular c else none) with
        | some i => some (before + i)
        | none => match firstBad id f with
          | some i => some (before + i)
          | none => go (before + c.length) cs fs
      | _, _ => none
    pure (reply (out (go 0 colChunks flagged)))
  | "row_matrix" =>
    pure (reply (nat (rowOfOffsetMatrix (← getNat j "w") (← getNat j "offset"))))
  | "row_ragged" =>
    pure (reply (nat (rowOfOffsetRagged (← getNatList j "lengths") (← getNat j "offset"))))
  | _ => throw s!"C15: unknown op {op}"
end Drv.C15
