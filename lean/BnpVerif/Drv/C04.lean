import BnpVerif.Proto
import BnpVerif.Model.C04
namespace Drv.C04
open Lean Proto _root_.C04 PyIdx

def toBytes (s : String) : Bytes := s.toList.map Char.toNat
def ofBytes (b : Bytes) : String := String.ofList (b.map Char.ofNat)
def bstr (b : Bytes) : Json := Json.str (ofBytes b)

def hexVal (c : Char) : Nat :=
  if '0' ≤ c ∧ c ≤ '9' then c.toNat - 48 else if 'a' ≤ c ∧ c ≤ 'f' then c.toNat - 87 else 0
def ofHex : List Char → Bytes
  | a :: b :: r => (16 * hexVal a + hexVal b) :: ofHex r
  | _ => []
def hexDigit (n : Nat) : Char := if n < 10 then Char.ofNat (48 + n) else Char.ofNat (87 + n)
def toHex (b : Bytes) : String := String.ofList (b.flatMap (fun x => [hexDigit (x / 16), hexDigit (x % 16)]))

def optInt (j : Json) : Except String (Option Int) :=
  match j with
  | Json.null => pure none
  | _ => do pure (some (← j.getInt?))

def parseIdx (j : Json) : Except String Idx := do
  if let .ok v := j.getObjVal? "int" then return Idx.int (← v.getInt?)
  if let .ok v := j.getObjVal? "slice" then
    let a ← v.getArr?
    if a.size != 3 then throw "slice arity"
    return Idx.slice (← optInt a[0]!) (← optInt a[1]!) (← a[2]!.getInt?)
  if let .ok v := j.getObjVal? "mask" then
    let a ← v.getArr?
    return Idx.mask (← a.toList.mapM (·.getBool?))
  if let .ok v := j.getObjVal? "ints" then return Idx.ints (← asIntList v)
  throw "bad idx"

partial def parseProg (j : Json) : Except String Prog := do
  if let .ok v := j.getObjVal? "t" then return Prog.leaf (← v.getNat?)
  if let .ok v := j.getObjVal? "sel" then
    return Prog.sel (← parseProg v) (← parseIdx (← j.getObjVal? "ix"))
  if let .ok v := j.getObjVal? "cat" then
    let a ← v.getArr?
    if a.size != 2 then throw "cat arity"
    return Prog.cat (← parseProg a[0]!) (← parseProg a[1]!)
  if let .ok v := j.getObjVal? "catr" then
    let a ← v.getArr?
    if a.size != 2 then throw "catr arity"
    return Prog.catRange (← a[0]!.getNat?) (← a[1]!.getNat?)
  if let .ok v := j.getObjVal? "touch" then return Prog.touch (← parseProg v)
  if let .ok v := j.getObjVal? "seq" then
    let a ← v.getArr?
    if a.size != 2 then throw "seq arity"
    return Prog.seq (← parseProg a[0]!) (← parseProg a[1]!)
  throw "bad prog"

def build (fmt : String) (raw : Bytes) : Option Ext :=
  match fmt with
  | "sam" => buildSam raw
  | "fastq" => buildKLine 4 [1, 0, 0, 0] raw
  | "fasta2" => buildKLine 2 [1, 0] raw
  | "bam" => some (buildBam raw)
  | _ => buildDelimited delimitedFixed 9 raw

def errIdx : Json := Json.mkObj [("err", str "index")]

def handle (op : String) (j : Json) : Except String Json := do
  match op with
  | "prog" =>
    let fmt ← getStr j "fmt"
    let toBytes := fun (s : String) => if fmt == "bam" then ofHex s.toList else toBytes s
    let bstr := fun (b : Bytes) => if fmt == "bam" then Json.str (toHex b) else bstr b
    let hdr ← getStr j "hdr"
    let tabs ← (← getArr j "tables").mapM (fun t => do pure (toBytes (← t.getStr?)))
    let prog ← parseProg (← j.getObjVal? "prog")
    let nF ← getNat j "nF"
    let cmp ← getStr j "cmp"
    -- the writer's buffer class is not a superclass of the reader's: `get_buffer` joins the fields even when none was replaced
    let forceJoin := (j.getObjVal? "join").toOption.bind (·.getBool?.toOption) |>.getD false
    let replJ ← getArr j "repl"
    let repl ← replJ.mapM (fun r => do
      let a ← r.getArr?
      let k ← a[0]!.getNat?
      let col ← (← a[1]!.getArr?).toList.mapM (fun t => do pure (toBytes (← t.getStr?)))
      pure (k, col))
    -- specification side: tables as lists of (raw line, field texts) straight from the generator
    let recTabs ← (← getArr j "recs").mapM (fun t => do
      (← t.getArr?).toList.mapM (fun r => do
        let raw ← getStr r "raw"
        let fs ← (← getArr r "fields").mapM (fun f => do pure (toBytes (← f.getStr?)))
        pure (Rec.mk (toBytes raw) [], fs)))
    let spec : Json :=
      match prog.evalSpec recTabs with
      | none => errIdx
      | some rs =>
        if cmp == "bytes" then Json.mkObj [("out", bstr (toBytes hdr ++ specBytes (rs.map (·.1))))]
        else
          let rows := (List.range rs.length).map (fun i =>
            (List.range nF).map (fun jj =>
              match repl.find? (·.1 == jj) with
              | some (_, col) => col.getD i []
              | none => ((rs[i]?).map (fun r => r.2.getD jj [])).getD []))
          Json.mkObj [("fields", Json.arr (rows.map (fun r => Json.arr (r.map bstr).toArray)).toArray)]
    -- model side
    let exts := tabs.map (build fmt)
    if exts.any (·.isNone) then
      return reply (Json.mkObj [("err", str "other:AttributeError")]) (some spec)
    let exts := exts.filterMap id
    let inv := exts.all (·.invB)
    let kline := fmt == "fastq" || fmt == "fasta2"
    let fidx : List Nat := if fmt == "fastq" then [0, 1, 3] else [0, 1]
    let lay : Layout := match fmt with
      | "fastq" => .kline 64 true
      | "fasta2" => .kline 62 false
      | _ => .delimited 9
    let kinds := colKinds fmt nF
    let lazyOut := fun (e : Ext) =>
        if repl.isEmpty && !forceJoin then Json.mkObj [("out", bstr (toBytes hdr ++ e.bytes)), ("inv", Json.bool inv)]
        else Json.mkObj [("out", bstr (toBytes hdr ++ e.writeModified lay kinds repl)), ("inv", Json.bool inv)]
    let model : Json :=
      if kline then
        -- buffers without `concatenate`: np.concatenate materialises the operands (eager table of field texts)
        match prog.evalTab false fidx exts with
        | none => errIdx
        | some (.lz e) => lazyOut e
        | some (.eg rows) =>
          Json.mkObj [("out", bstr (toBytes hdr ++ writeRowsModified lay nF repl rows)), ("inv", Json.bool inv)]
      else
        match prog.evalExt exts with
        | none => errIdx
        | some e => lazyOut e
    pure (reply model (some spec))
  | _ => throw s!"C04: unknown op {op}"

end Drv.C04
