import BnpVerif.Proto
import BnpVerif.Model.C05
namespace Drv.C05
open Lean Proto _root_.C05 PyIdx

def toBytes (s : String) : Bytes := s.toList.map Char.toNat
def ofBytes (b : Bytes) : String := String.ofList (b.map Char.ofNat)
def bstr (b : Bytes) : Json := Json.str (ofBytes b)

def optInt (j : Json) : Except String (Option Int) :=
  match j with
  | Json.null => pure none
  | _ => do pure (some (← j.getInt?))

def parseIdx (j : Json) : Except String Idx := do
  if let .ok v := j.getObjVal? "int" then return Idx.int (← v.getInt?)
  if let .ok v := j.getObjVal? "slice" then
    let a ← v.getArr?
    if a.size != 3 then throw "slice arity"
    return Idx.slice (← optInt a[0]!) (← optInt a[1]!) (← a[2]!.getInt?)
  if let .ok v := j.getObjVal? "mask" then
    let a ← v.getArr?
    return Idx.mask (← a.toList.mapM (·.getBool?))
  if let .ok v := j.getObjVal? "ints" then return Idx.ints (← asIntList v)
  throw "bad idx"

def strList (j : Json) : Except String (List Bytes) := do
  (← j.getArr?).toList.mapM (fun t => do pure (toBytes (← t.getStr?)))

def parseOp (j : Json) : Except String Op := do
  let k ← getStr j "k"
  let a ← getNat j "a"
  match k with
  | "len" => pure (.len a)
  | "get" => pure (.get a (← getNat j "f"))
  | "index" => pure (.index a (← getNat j "d") (← parseIdx (← j.getObjVal? "ix")))
  | "row" => pure (.row a (← getInt j "i"))
  | "cat" => pure (.cat a (← getNat j "b"))
  | "replace" =>
    let kw ← (← getArr j "kw").mapM (fun p => do
      let arr ← p.getArr?
      pure ((← arr[0]!.getNat?), (← strList arr[1]!)))
    pure (.replace a (← getNat j "d") kw)
  | "setattr" => pure (.setattr a (← getNat j "f") (← strList (← j.getObjVal? "c")))
  | "tolist" => pure (.tolist a)
  | "write" => pure (.write a)
  | _ => throw s!"bad op {k}"

def hexVal (c : Char) : Nat :=
  if '0' ≤ c ∧ c ≤ '9' then c.toNat - 48 else if 'a' ≤ c ∧ c ≤ 'f' then c.toNat - 87 else 0
def ofHex : List Char → Bytes
  | a :: b :: r => (16 * hexVal a + hexVal b) :: ofHex r
  | _ => []
def hexDigit (n : Nat) : Char := if n < 10 then Char.ofNat (48 + n) else Char.ofNat (87 + n)
def toHex (b : Bytes) : String := String.ofList (b.flatMap (fun x => [hexDigit (x / 16), hexDigit (x % 16)]))

def obsJ (hex : Bool) (hdr : Bytes) : Obs → Json
  | .num n => Json.mkObj [("num", nat n)]
  | .col c => Json.mkObj [("col", Json.arr (c.map bstr).toArray)]
  | .rows r => Json.mkObj [("rows", Json.arr (r.map (fun x => Json.arr (x.map bstr).toArray)).toArray)]
  | .bytes b => Json.mkObj [("bytes", if hex then Json.str (toHex (hdr ++ b)) else bstr (hdr ++ b))]
  | .unit => Json.str "unit"
  | .err => Json.str "err"

def handle (op : String) (j : Json) : Except String Json := do
  match op with
  | "run" =>
    let nF ← getNat j "nF"
    let fmt ← getStr j "fmt"
    let hex := fmt == "bam"
    let rawBytes := fun (t : String) => if hex then ofHex t.toList else toBytes t
    let hdr := rawBytes (← getStr j "hdr")
    let tabs ← (← getArr j "tables").mapM (fun t => do
      (← t.getArr?).toList.mapM (fun r => do
        let raw ← getStr r "raw"
        let cells ← (← getArr r "cells").mapM (fun c => do
          let a ← c.getArr?
          pure (Cell.mk (toBytes (← a[0]!.getStr?)) (toBytes (← a[1]!.getStr?))))
        pure (FRow.mk (rawBytes raw) cells)))
    let ops ← (← getArr j "ops").mapM parseOp
    let k : Cfg := { nF := nF, join := (if fmt == "fastq" then joinFastq else if fmt == "fasta2" then joinFasta else joinTab),
                     fixedConcat := concatFixed, bufferConcat := !(fmt == "fastq" || fmt == "fasta2" || fmt == "bam"), fixedSetattr := setattrFixed,
                     modWrite := !(fmt == "bam"), eagerWrite := !(fmt == "bam") }
    let drop ← getNat j "drop"
    let lz := (runLazy k ops (tabs.map Lazy.ofFile)).drop drop
    let eg := (runEager k ops (tabs.map (Eager.ofFile nF))).drop drop
    -- `dom`: the run lies in the domain of the equivalence theorems (`runOKb_sound` gives `RunOK`)
    let m := Json.mkObj [("lazy", Json.arr (lz.map (obsJ hex hdr)).toArray), ("eager", Json.arr (eg.map (obsJ hex hdr)).toArray),
      ("dom", Json.bool (runOKb k ops (tabs.map Lazy.ofFile)))]
    pure (reply m (some (Json.mkObj [("spec", Json.arr (eg.map (obsJ hex hdr)).toArray)])))
  | _ => throw s!"C05: unknown op {op}"

end Drv.C05
