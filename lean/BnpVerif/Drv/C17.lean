import BnpVerif.Proto
import BnpVerif.Model.C17
namespace Drv.C17
open Lean Proto _root_.C17

def toB (s : String) : Bytes := s.toList.map Char.toNat
def ofB (b : Bytes) : String := String.ofList (b.map Char.ofNat)

def getRecs (j : Json) : Except String (List Rec) := do
  let a ← getArr j "recs"
  a.mapM (fun r => do
    let h ← getStr r "h"
    let q ← getStr r "seq"
    let w ← getNat r "w"
    pure (⟨toB h, toB q, w⟩ : Rec))

def rowJ (r : IdxRow) : Json :=
  Json.arr #[Json.str (ofB r.name), nat r.rlen, nat r.offset, nat r.lenc, nat r.lenb]

def lensJ (l : List (Bytes × Nat)) : Json :=
  Json.arr (l.map (fun p => Json.arr #[Json.str (ofB p.1), nat p.2])).toArray

def handle (op : String) (j : Json) : Except String Json := do
  let recs ← getRecs j
  let file := fileOf recs
  let spec := (specIndex recs).map (fun r => { r with name := firstWord r.name })
  match op with
  | "index" =>
    let idx := createIndex file
    let m := Json.mkObj [("rows", Json.arr (idx.map rowJ).toArray), ("lengths", lensJ (contigLengths idx))]
    let s := Json.mkObj [("rows", Json.arr (spec.map rowJ).toArray),
                         ("lengths", lensJ (recs.map (fun r => (firstWord r.header, r.seq.length))))]
    pure (reply m (some s))
  | "fetch" =>
    let supplied ← getBool j "supplied"
    let idx := if supplied then spec else createIndex file
    let ivs ← getArr j "ivs"
    let qs ← ivs.mapM (fun iv => do
      let n ← getStr iv "name"
      let a ← getNat iv "a"
      let b ← getNat iv "b"
      pure (toB n, a, b))
    let m := qs.map (fun (n, a, b) => match lookup idx n with
      | some r => Json.str (ofB (fetchInterval file r a b))
      | none => Json.null)
    let s := qs.map (fun (n, a, b) => match recs.find? (fun r => firstWord r.header == n) with
      | some r => Json.str (ofB ((r.seq.drop a).take (b - a)))
      | none => Json.null)
    pure (reply (Json.arr m.toArray) (some (Json.arr s.toArray)))
  | "contig" =>
    let supplied ← getBool j "supplied"
    let idx := if supplied then spec else createIndex file
    let m := idx.map (fun r => Json.arr #[Json.str (ofB (firstWord r.name)), Json.str (ofB (fetchContig file r))])
    let s := recs.map (fun r => Json.arr #[Json.str (ofB (firstWord r.header)), Json.str (ofB r.seq)])
    pure (reply (Json.arr m.toArray) (some (Json.arr s.toArray)))
  | _ => throw s!"C17: unknown op {op}"

end Drv.C17
