import BnpVerif.Proto
import BnpVerif.Model.C17
namespace Drv.C17
open Lean Proto _root_.C17

def toB (s : String) : Bytes := s.toList.map Char.toNat
def ofB (b : Bytes) : String := String.ofList (b.map Char.ofNat)

def getRecs (j : Json) : Except String (List Rec) := do
  let a ← getArr j "recs"
  a.mapM (fun r => do
    let h ← getStr r "h"
    let q ← getStr r "seq"
    let w ← getNat r "w"
    pure (⟨toB h, toB q, w⟩ : Rec))

def rowJ (r : IdxRow) : Json :=
  Json.arr #[Json.str (ofB r.name), nat r.rlen, nat r.offset, nat r.lenc, nat r.lenb]

def lensJ (l : List (Bytes × Nat)) : Json :=
  Json.arr (l.map (fun p => Json.arr #[Json.str (ofB p.1), nat p.2])).toArray

/-- the index as the library sees it (written `.fai` read back); a parse failure is an error, not an empty index -/
def indexBack (idx : List IdxRow) : Except String (List IdxRow) :=
  match readIndex (faiText idx) with
  | some b => pure b
  | none => throw "model: read_index failed on the written .fai"

def errIndex : Json := Json.mkObj [("err", str "other:IndexError")]

/-- one checked interval read: IndexError / KeyError become an error value, never a silently wrong string -/
def fetchJ (file : Bytes) (idx : List IdxRow) (n : Bytes) (a b : Nat) : Json :=
  match fetchNamed file idx (n, a, b) with
  | some x => Json.str (ofB x)
  | none => errIndex

def handle (op : String) (j : Json) : Except String Json := do
  let recs ← getRecs j
  let blanks ← (← getArr j "recs").mapM (fun r => match r.getObjVal? "blank" with
    | .ok v => v.getNat?
    | _ => pure 0)
  let recsB := recs.zip blanks
  let noNL := match j.getObjVal? "no_final_newline" with
    | .ok (Json.bool b) => b
    | _ => false
  let file := if noNL then (fileOfB recsB).dropLast else fileOfB recsB
  let spec := (specIndexFromB 0 recsB).map (fun r => { r with name := firstWord r.name })
  match op with
  | "index" =>
    let idx := createIndex file
    -- the written .fai, and what read_index makes of it (get_contig_lengths reads the re-read index)
    let back ← indexBack idx
    let m := Json.mkObj [("rows", Json.arr (back.map rowJ).toArray), ("lengths", lensJ (contigLengths back)),
                         ("fai", Json.str (ofB (faiText idx)))]
    let s := Json.mkObj [("rows", Json.arr (spec.map rowJ).toArray),
                         ("lengths", lensJ (recs.map (fun r => (firstWord r.header, r.seq.length)))),
                         ("fai", Json.str (ofB (faiText spec)))]
    pure (reply m (some s))
  | "session" =>
    -- several calls on one open object: the model is stateless, every step is computed from the index and the file
    let idx ← indexBack (createIndex file)
    let steps ← getArr j "steps"
    let out ← steps.mapM (fun st => do
      let k ← getStr st "k"
      match k with
      | "fetch" =>
        let ivs ← getArr st "ivs"
        let rs ← ivs.mapM (fun iv => do
          let n ← getStr iv "name"
          let a ← getNat iv "a"
          let b ← getNat iv "b"
          pure (toB n, a, b))
        -- the whole set goes through the flat-buffer assembly of get_interval_sequences
        pure (match getIntervalSequences file idx rs with
          | some l => Json.arr (l.map (fun x => Json.str (ofB x))).toArray
          | none => errIndex)
      | "contig" =>
        let n ← getStr st "name"
        pure (match lookup idx (toB n) with
          | some r => Json.str (ofB (fetchContig file r))
          | none => Json.null)
      | "items" => pure (Json.arr (idx.map (fun r => Json.arr #[Json.str (ofB r.name), Json.str (ofB (fetchContig file r))])).toArray)
      | "values" => pure (Json.arr (idx.map (fun r => Json.str (ofB (fetchContig file r)))).toArray)
      | "lengths" => pure (lensJ (contigLengths idx))
      | _ => throw s!"C17: unknown step {k}")
    let sOut ← steps.mapM (fun st => do
      let k ← getStr st "k"
      match k with
      | "fetch" =>
        let ivs ← getArr st "ivs"
        let rs ← ivs.mapM (fun iv => do
          let n ← getStr iv "name"
          let a ← getNat iv "a"
          let b ← getNat iv "b"
          pure (match recs.find? (fun r => firstWord r.header == toB n) with
            | some r => Json.str (ofB ((r.seq.drop a).take (b - a)))
            | none => Json.null))
        pure (Json.arr rs.toArray)
      | "contig" =>
        let n ← getStr st "name"
        pure (match recs.find? (fun r => firstWord r.header == toB n) with
          | some r => Json.str (ofB r.seq)
          | none => Json.null)
      | "items" => pure (Json.arr (recs.map (fun r => Json.arr #[Json.str (ofB (firstWord r.header)), Json.str (ofB r.seq)])).toArray)
      | "values" => pure (Json.arr (recs.map (fun r => Json.str (ofB r.seq))).toArray)
      | "lengths" => pure (lensJ (recs.map (fun r => (firstWord r.header, r.seq.length))))
      | _ => throw s!"C17: unknown step {k}")
    pure (reply (Json.arr out.toArray) (some (Json.arr sOut.toArray)))
  | "create_index" =>
    -- the rows create_index returns (before they are written): also for empty / blank / blank-led headers
    let m := Json.mkObj [("rows", Json.arr ((createIndex file).map rowJ).toArray)]
    let s := Json.mkObj [("rows", Json.arr (spec.map rowJ).toArray)]
    pure (reply m (some s))
  | "index_chunked" =>
    let sizes ← getNatList j "sizes"
    let chunks := (sizes.foldl (fun (acc : List Bytes × Bytes) n => (acc.1 ++ [acc.2.take n], acc.2.drop n)) ([], file)).1
    let idx := createIndexChunked chunks
    let m := Json.mkObj [("rows", Json.arr (idx.map rowJ).toArray)]
    let s := Json.mkObj [("rows", Json.arr (spec.map rowJ).toArray)]
    pure (reply m (some s))
  | "genome" =>
    let idx := createIndex file
    let text := faiText idx
    let sizes ← (match genomeSizes text with
      | some z => pure z
      | none => throw "model: Genome.from_file failed on the written .fai")
    let back ← indexBack idx
    let seqs := back.map (fun r => Json.arr #[Json.str (ofB r.name), Json.str (ofB (fetchContig file r))])
    let last := back.getLast?
    let sub := match last with
      | some r => [fetchJ file back r.name 0 r.rlen, fetchJ file back r.name (r.rlen / 2) r.rlen]
      | none => []
    let m := Json.mkObj [("sizes", lensJ sizes), ("seqs", Json.arr seqs.toArray), ("sub", Json.arr sub.toArray)]
    let sSub := match recs.getLast? with
      | some r => [Json.str (ofB r.seq), Json.str (ofB (r.seq.drop (r.seq.length / 2)))]
      | none => []
    let s := Json.mkObj [("sizes", lensJ (recs.map (fun r => (firstWord r.header, r.seq.length)))),
                         ("seqs", Json.arr (recs.map (fun r => Json.arr #[Json.str (ofB (firstWord r.header)), Json.str (ofB r.seq)])).toArray),
                         ("sub", Json.arr sSub.toArray)]
    pure (reply m (some s))
  | "fetch" =>
    let supplied ← getBool j "supplied"
    let idx ← indexBack (if supplied then spec else createIndex file)
    let ivs ← getArr j "ivs"
    let qs ← ivs.mapM (fun iv => do
      let n ← getStr iv "name"
      let a ← getNat iv "a"
      let b ← getNat iv "b"
      pure (toB n, a, b))
    let m := match getIntervalSequences file idx qs with
      | some l => Json.arr (l.map (fun x => Json.str (ofB x))).toArray
      | none => errIndex
    let s := qs.map (fun (n, a, b) => match recs.find? (fun r => firstWord r.header == n) with
      | some r => Json.str (ofB ((r.seq.drop a).take (b - a)))
      | none => Json.null)
    pure (reply m (some (Json.arr s.toArray)))
  | "contig" =>
    let supplied ← getBool j "supplied"
    let idx ← indexBack (if supplied then spec else createIndex file)
    let m := idx.map (fun r => Json.arr #[Json.str (ofB (firstWord r.name)), Json.str (ofB (fetchContig file r))])
    let s := recs.map (fun r => Json.arr #[Json.str (ofB (firstWord r.header)), Json.str (ofB r.seq)])
    pure (reply (Json.arr m.toArray) (some (Json.arr s.toArray)))
  | _ => throw s!"C17: unknown op {op}"

end Drv.C17
