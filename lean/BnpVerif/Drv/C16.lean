import BnpVerif.Proto
import BnpVerif.Model.C16
import BnpVerif.Gen.C16
namespace Drv.C16
open Lean Proto _root_.C16

def getRec (j : Json) : Except String Rec := do
  let cig ← getNatListList j "cigar"
  pure { refID := ← getInt j "ref", pos := ← getInt j "pos", mapq := ← getNat j "mapq", bin := ← getNat j "bin",
         flag := ← getNat j "flag", nextRef := ← getInt j "nref", nextPos := ← getInt j "npos", tlen := ← getInt j "tlen",
         name := ← getNatList j "name", cigar := cig.map (fun p => (p.getD 0 0, p.getD 1 0)),
         seq := ← getNatList j "seq", qual := ← getNatList j "qual", tags := ← getNatList j "tags" }

def text (bs : Bytes) : Json := Json.str (String.ofList (bs.map Char.ofNat))

def letters (tab : List Nat) (codes : List Nat) : Json := text (codes.map (fun c => (tab[c]?).getD 63))

/-- the reference column: `*` (no reference) is rendered as null; an EMPTY name is what the model returns for a reference
index outside the name list, where the code raises: rendered as an error marker, never as "no reference" -/
def chromJ (c : Bytes) : Json := if c == star then Json.null else if c == [] then Json.str "E:reference-index-out-of-range" else text c

/-- a decoded record rendered with the letter tables `cl` (CIGAR) and `sl` (sequence) -/
def drecJ (cl sl : List Nat) (d : DRec) : Json :=
  Json.arr #[chromJ d.chrom, text d.name, nat d.flag, int d.pos, nat d.mapq, letters cl d.cigOp, natList d.cigLen,
             letters sl d.seq, natList d.qual]

def specCL : List Nat := "MIDNSHP=X".toList.map Char.toNat
def specSL : List Nat := "=ACMGRSVTWYHKDBN".toList.map Char.toNat

def ivJ (i : Interval) : Json :=
  Json.arr #[chromJ i.chrom, int i.start, int i.stop, text i.name, nat i.score, Json.str (if i.minus then "-" else "+")]

def bhash (b : Bytes) : Json :=
  let r := b.foldl (fun (acc : Nat × Nat × Nat) x =>
    (acc.1 + 1, (acc.2.1 + x + 1) % 1000000007, (acc.2.2 + (acc.1 + 1) * (x + 1)) % 1000000007)) (0, 0, 0)
  natList [r.1, r.2.1, r.2.2]

def refsJ (refs : List (Bytes × Nat)) : Json := Json.arr (refs.map (fun p => Json.arr #[text p.1, nat p.2])).toArray

def handle (op : String) (j : Json) : Except String Json := do
  let names ← getNatListList j "names"
  let lens ← getNatList j "lens"
  let htext ← getNatList j "text"
  let refs := names.zip lens
  let recs ← (← getArr j "recs").mapM getRec
  let body := encodeAll recs
  let header := encodeHeader htext refs
  let members := [header ++ body]
  let oc := Gen.C16.oldCig
  let on := Gen.C16.oldChrom
  let mj := drecJ Gen.C16.cigarLetters Gen.C16.seqLetters
  let sj := drecJ specCL specSL
  -- shipped rule only: indexing an empty name list raised (IndexError inside the lazy column -> ParsingException)
  if on && names.isEmpty && !recs.isEmpty && op != "write" then
    let e := Json.mkObj ([("err", Json.str "other:ParsingException")] ++ (if op == "decode" then [("enc", bhash body), ("hdr", bhash header)] else []))
    return reply e none
  match op with
  | "decode" =>
    let m := match readFile oc on members with
      | some (rf, ds) => Json.mkObj [("enc", bhash body), ("hdr", bhash header), ("refs", refsJ rf), ("recs", Json.arr (ds.map mj).toArray)]
      | none => Json.mkObj [("err", Json.str "other:header")]
    let s := Json.mkObj [("enc", bhash body), ("hdr", bhash header), ("refs", refsJ refs), ("recs", Json.arr ((recs.map (view names)).map sj).toArray)]
    pure (reply m (some s))
  | "chunked" =>
    let k ← getNat j "k"
    -- header first, then chunks of the record area (the same file object)
    let chunks : List (List DRec) := match readFileChunks oc on members k with
      | some (_, cs) => cs.map Prod.fst
      | none => []
    let m := Json.mkObj [("recs", Json.arr ((chunks.flatten).map mj).toArray), ("chunks", natList (chunks.map List.length))]
    let s := Json.mkObj [("recs", Json.arr ((recs.map (view names)).map sj).toArray)]
    pure (reply m (some s))
  | "program" =>
    -- a sequence of selections (given as position lists), writes and field reads on the table read from the file
    let steps ← getArr j "steps"
    let prog ← steps.mapM (fun st => do
      let a ← st.getArr?
      let kind ← (a.getD 0 Json.null).getStr?
      match kind with
      | "select" => do
        let idx ← asNatList (a.getD 1 Json.null)
        pure (PStep.select idx)
      | "write" => pure PStep.write
      | _ => pure PStep.fields)
    let outs := runProg names (Ext.ofChunk (addNewline body)) prog
    let sp := specProg names recs prog
    let mjs := outs.map (fun o => match o with
      | .written b => Json.mkObj [("w", bhash b)]
      | .read ds => Json.mkObj [("r", Json.arr (ds.map mj).toArray)])
    let sjs := sp.map (fun o => match o with
      | .written b => Json.mkObj [("w", bhash b)]
      | .read ds => Json.mkObj [("r", Json.arr (ds.map sj).toArray)])
    pure (reply (Json.arr mjs.toArray) (some (Json.arr sjs.toArray)))
  | "tree" =>
    -- several tables alive at once: table 0 is the file, every selection appends a table; writes and reads name a table
    let steps ← getArr j "steps"
    let prog ← steps.mapM (fun st => do
      let a ← st.getArr?
      let kind ← (a.getD 0 Json.null).getStr?
      let i ← (a.getD 1 Json.null).getNat?
      match kind with
      | "sel" => do
        let idx ← asNatList (a.getD 2 Json.null)
        pure (TStep.sel i idx)
      | "write" => pure (TStep.write i)
      | _ => pure (TStep.fields i))
    let outs := runTree names [Ext.ofChunk (addNewline body)] prog
    let sp := specTree names [recs] prog
    let mjs := outs.map (fun o => match o with
      | .written b => Json.mkObj [("w", bhash b)]
      | .read ds => Json.mkObj [("r", Json.arr (ds.map mj).toArray)])
    let sjs := sp.map (fun o => match o with
      | .written b => Json.mkObj [("w", bhash b)]
      | .read ds => Json.mkObj [("r", Json.arr (ds.map sj).toArray)])
    pure (reply (Json.arr mjs.toArray) (some (Json.arr sjs.toArray)))
  | "count" =>
    -- `count_entries`: NumpyFileReader.read_chunks(min_chunk_size=500000), sum of chunk.count_entries()
    pure (reply (Json.mkObj [("n", nat (countEntries oc on names 500000 body))]) (some (Json.mkObj [("n", nat recs.length)])))
  | "interval" =>
    let ds := readWhole oc on names body
    let iv := Json.arr ((alignmentToInterval Gen.C16.consumingCodes ds).map ivJ).toArray
    let ib := Json.arr ((ds.map (intervalOf Gen.C16.consumes)).map ivJ).toArray
    let sv := Json.arr ((recs.map (specInterval names)).map ivJ).toArray
    pure (reply (Json.mkObj [("buf", ib), ("fn", iv)]) (some (Json.mkObj [("buf", sv), ("fn", sv)])))
  | "session" =>
    -- one open writer, several calls: ["ok", positions] delivers the selected records' bytes, ["refused"] raises after the header step
    let steps ← getArr j "steps"
    let calls ← steps.mapM (fun st => do
      let a ← st.getArr?
      let kind ← (a.getD 0 Json.null).getStr?
      match kind with
      | "ok" => do
        let idx ← asNatList (a.getD 1 Json.null)
        pure (some (selectBytes (addNewline body) idx))
      | _ => pure (none : Option Bytes))
    let out := writerSession (headerBytes (gunzip members)) calls
    pure (reply (Json.mkObj [("file", bhash (gunzip out))]) none)
  | "write" =>
    let mode ← getStr j "mode"
    let out ← if mode == "chunks" then do
        let k ← getNat j "k"
        pure (writeChunks oc on members k)
      else do
        let idx ← getNatList j "idx"
        pure (writeFile members idx)
    let whole := gunzip out
    let m := Json.mkObj [("file", bhash whole), ("body", bhash (whole.drop header.length)),
                         ("eof", Json.bool (out.getLast? == some [] && Gen.C16.eofMarker == specEof))]
    pure (reply m none)
  | _ => throw s!"C16: unknown op {op}"

end Drv.C16
