import BnpVerif.Proto
import BnpVerif.Model.C08
namespace Drv.C08
open Lean Proto _root_.C08 Base.Rle

def toIvs (ll : List (List Nat)) : Except String (List Iv) :=
  ll.mapM (fun l => match l with
    | [a, b] => pure (a, b)
    | _ => throw "interval must be [start, stop]")

def getIvs (j : Json) (k : String) : Except String (List Iv) := do
  toIvs (← getNatListList j k)

def ivsJ (I : List Iv) : Json := natListList (I.map (fun iv => [iv.1, iv.2]))

def rleJ {V : Type} (r : Rle V) (dense : Json) (vals : List V → Json) : Json :=
  Json.mkObj [("dense", dense), ("events", natList r.events), ("values", vals r.values)]

def assertErr : Json := Json.mkObj [("err", str "other:AssertionError")]

def bitsOf (x : Float) : Json := nat x.toBits.toNat

def t4J (t : Nat × Nat × Nat × Nat) : Json := natList [t.1, t.2.1, t.2.2.1, t.2.2.2]

def handle (op : String) (j : Json) : Except String Json := do
  match op with
  | "pileup" =>
    let I ← getIvs j "iv"
    let size ← getNat j "size"
    -- counting is delegated to npstructures (specified external = per-base count); the empty case is in /repo
    let m := getPileup specPileup I size
    pure (reply (Json.mkObj [("dense", natList m)]) (some (Json.mkObj [("dense", natList (specPileup I size))])))
  | "pileup_events" =>
    let I ← getIvs j "iv"
    let size ← getNat j "size"
    let r := pileupEvents I size
    pure (reply (rleJ r (intList r.toDense) intList)
      (some (Json.mkObj [("dense", intList ((specPileup I size).map Int.ofNat))])))
  | "mask" =>
    let I ← getIvs j "iv"
    let size ← getNat j "size"
    let r := mask I size
    pure (reply (rleJ r (boolList (r.toArray xor false)) boolList)
      (some (Json.mkObj [("dense", boolList (specMask I size))])))
  | "merge" =>
    let I ← getIvs j "iv"
    let d ← getNat j "d"
    let size ← getNat j "size"
    let m := if sortedByStart I then Json.mkObj [("iv", ivsJ (mergeVec d I))] else assertErr
    pure (reply m (some (Json.mkObj [("iv", ivsJ (specMerge I d size))])))
  | "sort" =>
    let recs ← getNatListList j "recs"
    let rs : List Rec ← recs.mapM (fun l => match l with
      | [k, s, e] => pure (k, s, e)
      | _ => throw "record must be [key, start, stop]")
    let out := fun (l : List Rec) => Json.mkObj [("recs", natListList (l.map (fun r => [r.1, r.2.1, r.2.2])))]
    pure (reply (out (sortIntervals rs)) (some (out (isort lex3 rs))))
  | "count_overlap" =>
    let A ← getIvs j "a"
    let B ← getIvs j "b"
    let size ← getNat j "size"
    pure (reply (Json.mkObj [("n", int (countOverlap A B))])
      (some (Json.mkObj [("n", nat (specCountOverlap A B size))])))
  | "intersect" =>
    let A ← getIvs j "a"
    let B ← getIvs j "b"
    let size ← getNat j "size"
    let dense := (List.range size).map (fun p => if 0 < cov A p && 0 < cov B p then 1 else 0)
    pure (reply (Json.mkObj [("iv", ivsJ (intersect A B))]) (some (Json.mkObj [("dense", natList dense)])))
  | "unique_intersect" =>
    let A ← getIvs j "a"
    let B ← getIvs j "b"
    let size ← getNat j "size"
    pure (reply (Json.mkObj [("iv", ivsJ (uniqueIntersect A B size))])
      (some (Json.mkObj [("iv", ivsJ (specUniqueIntersect A B))])))
  | "contingency" =>
    let A ← getIvs j "a"
    let B ← getIvs j "b"
    let size ← getNat j "size"
    pure (reply (Json.mkObj [("t", t4J (contingency A B size))]) (some (Json.mkObj [("t", t4J (specContingency A B size))])))
  | "jaccard" | "forbes" | "geo_jaccard" =>
    let chroms ← getArr j "chroms"
    let cs : List Contig2 ← chroms.mapM (fun c => do
      let A ← getIvs c "a"
      let B ← getIvs c "b"
      let size ← getNat c "size"
      pure (size, A, B))
    -- (before fix 5241510 `jaccard`/`forbes` raised ValueError in `groupby` for an operand with no entries)
    let m := Json.mkObj [("bits", bitsOf (if op == "forbes" then forbes cs else jaccard cs))]
    let ts := if op == "forbes" then specForbes cs else specJaccard cs
    pure (reply m (some (Json.mkObj [("bits", bitsOf ts)])))
  | "clip" =>
    let st ← getIntList j "start"
    let sp ← getIntList j "stop"
    let sz ← getIntList j "sizes"
    let out := (st.zip (sp.zip sz)).map (fun (s, e, z) => let r := clipK s e z; [r.1, r.2])
    pure (reply (Json.mkObj [("iv", intListList out)]))
  | "geo_clip" | "streamed_clip" =>
    let st ← getIntList j "start"
    let sp ← getIntList j "stop"
    let ch ← getNatList j "chrom"
    let cs ← getIntList j "chrom_sizes"
    let out := (geoClip cs (ch.zip (st.zip sp))).map (fun r => [r.1, r.2])
    pure (reply (Json.mkObj [("iv", intListList out)]))
  | "extend" =>
    let st ← getIntList j "start"
    let sp ← getIntList j "stop"
    let sz ← getIntList j "sizes"
    let fw ← getNatList j "fwd"
    let len ← getInt j "len"
    let out := (st.zip (sp.zip (sz.zip fw))).map (fun (s, e, z, f) => let r := extendK (f == 1) s e len z; [r.1, r.2])
    pure (reply (Json.mkObj [("iv", intListList out)]))
  | "geo_extend" | "streamed_extend" =>
    let st ← getIntList j "start"
    let sp ← getIntList j "stop"
    let ch ← getNatList j "chrom"
    let cs ← getIntList j "chrom_sizes"
    let fw ← getNatList j "fwd"
    let len ← getInt j "len"
    let out := (geoExtend cs len (ch.zip ((fw.map (· == 1)).zip (st.zip sp)))).map (fun r => [r.1, r.2])
    pure (reply (Json.mkObj [("iv", intListList out)]))
  | "seq" =>
    -- several calls on ONE interval object: merge with distances ds (in a row), then pileup, mask, sort;
    -- the model is pure, so every step is computed from the original intervals
    let I ← getIvs j "iv"
    let size ← getNat j "size"
    let ds ← getNatList j "ds"
    let sortJ := fun (l : List Iv) => natListList ((isort lex3 (l.map (fun iv => ((0 : Nat), iv.1, iv.2)))).map (fun r => [r.1, r.2.1, r.2.2]))
    let m := Json.mkObj [("merges", Json.arr (ds.map (fun dd => ivsJ (mergeVec dd I))).toArray),
      ("pileup", natList (getPileup specPileup I size)), ("mask", boolList (maskDense I size)), ("sorted", sortJ I)]
    let s := Json.mkObj [("merges", Json.arr (ds.map (fun dd => ivsJ (specMerge I dd size))).toArray),
      ("pileup", natList (specPileup I size)), ("mask", boolList (specMask I size)), ("sorted", sortJ I)]
    pure (reply m (some s))
  | "jaccard_matrix" =>
    -- `Geometry.jaccard_all_vs_all`: cell (i, j) is the Jaccard index of sets i and j, the diagonal stays 0
    let sizes ← getNatList j "sizes"
    let setsJ ← getArr j "sets"
    let sets ← setsJ.mapM (fun sj => do
      let rows ← sj.getArr?
      let ll ← rows.toList.mapM asNatList
      ll.mapM (fun l => match l with
        | [c, a, b] => pure (c, (a, b))
        | _ => throw "row must be [chrom, start, stop]"))
    let on := fun (st : List (Nat × Iv)) (c : Nat) => (st.filter (fun r => r.1 == c)).map (·.2)
    let cell := fun (f : List Iv → List Iv → Nat → Nat × Nat × Nat × Nat) (a b : List (Nat × Iv)) =>
      jaccardF ((sizes.zipIdx.map (fun (sz, c) => f (on a c) (on b c) sz)).foldl add4 (0, 0, 0, 0))
    let mat := fun (f : List Iv → List Iv → Nat → Nat × Nat × Nat × Nat) =>
      Json.arr ((sets.zipIdx.map (fun (a, i) => Json.arr ((sets.zipIdx.map (fun (b, k) =>
        if i == k then nat 0 else bitsOf (cell f a b))).toArray))).toArray)
    pure (reply (Json.mkObj [("bits", mat contingency)]) (some (Json.mkObj [("bits", mat specContingency)])))
  | "global_intersect" =>
    let sizes ← getNatList j "sizes"
    let toC := fun (ll : List (List Nat)) => ll.mapM (fun l => match l with
      | [c, a, b] => (pure (c, a, b) : Except String CIv)
      | _ => throw "row must be [chrom, start, stop]")
    let A ← toC (← getNatListList j "a")
    let B ← toC (← getNatListList j "b")
    let on := fun (L : List CIv) (c : Nat) => (L.filter (fun r => r.1 == c)).map (·.2)
    let dense := sizes.zipIdx.map (fun (sz, c) =>
      (List.range sz).map (fun p => if 0 < cov (on A c) p && 0 < cov (on B c) p then 1 else 0))
    pure (reply (Json.mkObj [("recs", natListList ((globalIntersect A B).map (fun r => [r.1, r.2.1, r.2.2])))])
      (some (Json.mkObj [("dense", natListList dense)])))
  | "pileup_bedgraph" =>
    let I ← getIvs j "iv"
    let lo := ((I.map (·.1)).min?).getD 0
    let hi := ((I.map (·.2)).max?).getD 0
    let recs := (pileupBg I).map (fun r => [(r.1 : Int), (r.2.1 : Int), r.2.2])
    -- `sliding_window_view` of an empty position array raises (known finding pileup_bedgraph:empty-input-raises-ValueError)
    let m := if I.isEmpty then Json.mkObj [("err", str "other:ValueError")] else Json.mkObj [("recs", intListList recs)]
    pure (reply m
      (some (Json.mkObj [("lo", nat lo), ("hi", nat hi), ("dense", natList ((List.range' lo (hi - lo)).map (cov I)))])))
  | "value_hist" =>
    let bg ← (← getNatListList j "bg").mapM (fun l => match l with
      | [a, b, v] => (pure (a, b, v) : Except String (Nat × Nat × Nat))
      | _ => throw "record must be [start, stop, value]")
    pure (reply (Json.mkObj [("hist", natList (valueHist bg))]))
  | "geo_sort" =>
    let recs ← getNatListList j "recs"
    let rs : List Rec ← recs.mapM (fun l => match l with
      | [k, s, e] => pure (k, s, e)
      | _ => throw "record must be [key, start, stop]")
    pure (reply (Json.mkObj [("recs", natListList ((geoSort rs).map (fun r => [r.1, r.2.1, r.2.2])))]))
  | _ => throw s!"C08: unknown op {op}"

end Drv.C08
