import BnpVerif.Proto
import BnpVerif.Model.C14
import BnpVerif.Gen.C14
namespace Drv.C14
open Lean Proto _root_.C14

def findTab (n : String) : Except String Tab :=
  match Gen.C14.all.find? (·.1 == n) with
  | some p => pure p.2
  | none => throw s!"unknown encoding {n}"

def errJ (k : String) : Json := Json.mkObj [("err", str k)]

/-- decoded text rows of a model result (ASCII bytes), as the harness canonicalises them -/
def rowsJ (T : Tab) (r : Option (List (List Nat))) : Json :=
  match r with
  | none => errJ "other:IndexError"
  | some out =>
    match Base.omap (decode T) out with
    | some t => Json.mkObj [("rows", natListList t), ("enc_same", Json.bool true)]
    | none => errJ "other:undecodable"

def getIvs (j : Json) : Except String (List Iv) := do
  let l ← getNatListList j "ivs"
  l.mapM (fun x => match x with
    | [c, a, b, s] => pure ⟨c, a, b, s⟩
    | _ => throw "bad interval")


def getPSteps (j : Json) : Except String (List PStep) := do
  let l ← getArr j "steps"
  l.mapM (fun x => do
    let k ← getStr x "k"
    match k with
    | "rc" => pure PStep.rc
    | "translate" => pure PStep.translate
    | "same" => pure PStep.same
    | "replace" => do pure (PStep.replace (← getNatListList x "rows"))
    | "idx" => do pure (PStep.idx (← getNatList x "p"))
    | "concat" => do pure (PStep.concat (← getNat x "n"))
    | _ => throw s!"bad pipeline step {k}")

def getGSteps (sizes : List Nat) (j : Json) : Except String (List GStep) := do
  let l ← getArr j "steps"
  l.mapM (fun x => do
    let k ← getStr x "k"
    match k with
    | "clip" => pure (GStep.clip sizes)
    | "same" => pure GStep.replaceSame
    | "idx" => do pure (GStep.idx (← getNatList x "p"))
    | "concat" => do pure (GStep.concat (← getNat x "n"))
    | _ => throw s!"bad derivation step {k}")

/-- one pipeline stage as the harness canonicalises it -/
def stageJ (named : Bool) (names : Option (List Bytes)) (rows : Option (List Bytes)) : Json :=
  match names, rows with
  | some n, some r =>
    if named then Json.mkObj [("names", natList (n.map (fun x => x.headD 0))), ("rows", natListList r)]
    else Json.mkObj [("rows", natListList r)]
  | _, _ => errJ "other:no-column"

def perrJ : PErr → Json
  | .assertion => errJ "other:AssertionError"
  | .index => errJ "other:IndexError"
  | .encoding => errJ "encoding"
  | .noColumn => errJ "other:AttributeError"

def handle (op : String) (j : Json) : Except String Json := do
  match op with
  | "rc" =>
    let T ← findTab (← getStr j "enc")
    let rows ← getNatListList j "codes"
    let flat ← getBool j "flat"
    let m := if flat then rowsJ T ((revcompFlat T (rows.headD [])).map (fun r => [r]))
             else rowsJ T (revcompRagged T rows)
    let s := match Base.omap (decode T) rows with
      | some t => Json.mkObj [("rows", natListList (t.map specRevComp)), ("enc_same", Json.bool true)]
      | none => errJ "other:undecodable"
    pure (reply m (some s))
  | "strand" =>
    let T ← findTab (← getStr j "enc")
    let seqs ← getNatListList j "codes"
    let ivs ← getIvs j
    let via ← getStr j "via"
    let m := rowsJ T (if via == "dna" then strandSpecific T seqs ivs
                      else if via == "plain" then some (getSequences (seqs.getD 0 []) ivs)
                      else if via == "unstranded" then some (extractUnstranded seqs ivs)
                      else extractStranded T seqs ivs)
    let s := match Base.omap (decode T) seqs with
      | some t => Json.mkObj [("rows", natListList (if via == "plain" || via == "unstranded" then relevant t ivs else specStrand t ivs)),
                              ("enc_same", Json.bool true)]
      | none => errJ "other:undecodable"
    pure (reply m (some s))
  | "translate" =>
    let rows ← getNatListList j "rows"
    let m := match translateRows Gen.C14.codon rows with
      | .ok out => Json.mkObj [("rows", natListList out)]
      | .error .encoding => errJ "encoding"
      | .error .assertion => errJ "other:AssertionError"
      | .error .index => errJ "other:IndexError"
    let s := match Base.omap specTranslate rows with
      | some out => Json.mkObj [("rows", natListList out)]
      | none => errJ "outside-genetic-code"
    pure (reply m (some s))
  | "pipe" =>
    let rows ← getNatListList j "rows"
    let named ← getBool j "named"
    let steps ← getPSteps j
    let names := (List.range rows.length).map (fun i => [i])
    let t0 : Table := ⟨rows.length, [("name", names), ("sequence", rows)], []⟩
    let m := match runPipe Gen.C14.ASCII Gen.C14.codon t0 steps with
      | .ok ts => Json.mkObj [("stages", Json.arr (ts.map (fun t => stageJ named (t.get "name") (t.get "sequence"))).toArray)]
      | .error e => perrJ e
    let s := match specStages names rows steps with
      | some st => Json.mkObj [("stages", Json.arr (st.map (fun p => stageJ named (some p.1) (some p.2))).toArray)]
      | none => errJ "outside-domain"
    pure (reply m (some s))
  | "strand_gi" =>
    let T ← findTab (← getStr j "enc")
    let seqs ← getNatListList j "codes"
    let stranded ← getBool j "stranded"
    let sizes := seqs.map List.length
    let steps ← getGSteps sizes j
    let origin ← getStr j "origin"
    let g0 ← (if origin == "loc" then do
        let l ← getNatListList j "locs"
        let locs ← l.mapM (fun x => match x with
          | [c, p, st] => pure (c, p, st)
          | _ => throw "bad location")
        pure (windows Gen.C14.giFlags sizes (← getNat j "flank") locs stranded)
      else do pure (⟨← getIvs j, stranded⟩ : GI))
    match runG Gen.C14.giFlags g0 steps with
    | none => pure (reply (errJ "other:IndexError") (some (errJ "outside-domain")))
    | some g =>
    let m := rowsJ T (getitem T seqs g)
    let s := match Base.omap (decode T) seqs with
      | some t => Json.mkObj [("rows", natListList (if stranded then specStrand t g.ivs else relevant t g.ivs)),
                              ("enc_same", Json.bool true)]
      | none => errJ "other:undecodable"
    pure (reply m (some s))
  | "transcripts" =>
    let T ← findTab "ACGTN"
    let ref ← getNatList j "codes"
    let ex ← getNatListList j "exons"
    let exons ← ex.mapM (fun x => match x with
      | [t, st, a, b] => pure (⟨t, st, a, b⟩ : Exon)
      | _ => throw "bad exon")
    let names := Json.arr ((groupRuns exons).map (fun g => str s!"t{(g.head?.map (·.tid)).getD 0}")).toArray
    let m := match transcriptSeqs T ref exons with
      | none => errJ "other:IndexError"
      | some out => match Base.omap (decode T) out with
        | some t => Json.mkObj [("names", names), ("rows", natListList t)]
        | none => errJ "other:undecodable"
    let s := match decode T ref with
      | some t => Json.mkObj [("names", names), ("rows", natListList (specTranscripts t exons))]
      | none => errJ "other:undecodable"
    pure (reply m (some s))
  | _ => throw s!"C14: unknown op {op}"

end Drv.C14
