import BnpVerif.Proto
import BnpVerif.Model.C14
import BnpVerif.Gen.C14
namespace Drv.C14
open Lean Proto _root_.C14

def findTab (n : String) : Except String Tab :=
  match Gen.C14.all.find? (·.1 == n) with
  | some p => pure p.2
  | none => throw s!"unknown encoding {n}"

def errJ (k : String) : Json := Json.mkObj [("err", str k)]

/-- decoded text rows of a model result (ASCII bytes), as the harness canonicalises them -/
def rowsJ (T : Tab) (r : Option (List (List Nat))) : Json :=
  match r with
  | none => errJ "other:IndexError"
  | some out =>
    match Base.omap (decode T) out with
    | some t => Json.mkObj [("rows", natListList t), ("enc_same", Json.bool true)]
    | none => errJ "other:undecodable"

def getIvs (j : Json) : Except String (List Iv) := do
  let l ← getNatListList j "ivs"
  l.mapM (fun x => match x with
    | [c, a, b, s] => pure ⟨c, a, b, s⟩
    | _ => throw "bad interval")

def handle (op : String) (j : Json) : Except String Json := do
  match op with
  | "rc" =>
    let T ← findTab (← getStr j "enc")
    let rows ← getNatListList j "codes"
    let flat ← getBool j "flat"
    let m := if flat then rowsJ T ((revcompFlat T (rows.headD [])).map (fun r => [r]))
             else rowsJ T (revcompRagged T rows)
    let s := match Base.omap (decode T) rows with
      | some t => Json.mkObj [("rows", natListList (t.map specRevComp)), ("enc_same", Json.bool true)]
      | none => errJ "other:undecodable"
    pure (reply m (some s))
  | "strand" =>
    let T ← findTab (← getStr j "enc")
    let seqs ← getNatListList j "codes"
    let ivs ← getIvs j
    let via ← getStr j "via"
    let m := rowsJ T (if via == "dna" then strandSpecific T seqs ivs
                      else if via == "plain" then some (getSequences (seqs.getD 0 []) ivs)
                      else if via == "unstranded" then some (extractUnstranded seqs ivs)
                      else extractStranded T seqs ivs)
    let s := match Base.omap (decode T) seqs with
      | some t => Json.mkObj [("rows", natListList (if via == "plain" || via == "unstranded" then relevant t ivs else specStrand t ivs)),
                              ("enc_same", Json.bool true)]
      | none => errJ "other:undecodable"
    pure (reply m (some s))
  | "translate" =>
    let rows ← getNatListList j "rows"
    let m := match translateRows Gen.C14.codon rows with
      | .ok out => Json.mkObj [("rows", natListList out)]
      | .error .encoding => errJ "encoding"
      | .error .assertion => errJ "other:AssertionError"
      | .error .index => errJ "other:IndexError"
    let s := match Base.omap specTranslate rows with
      | some out => Json.mkObj [("rows", natListList out)]
      | none => errJ "outside-genetic-code"
    pure (reply m (some s))
  | "transcripts" =>
    let T ← findTab "ACGTN"
    let ref ← getNatList j "codes"
    let ex ← getNatListList j "exons"
    let exons ← ex.mapM (fun x => match x with
      | [t, st, a, b] => pure (⟨t, st, a, b⟩ : Exon)
      | _ => throw "bad exon")
    let names := Json.arr ((groupRuns exons).map (fun g => str s!"t{(g.head?.map (·.tid)).getD 0}")).toArray
    let m := match transcriptSeqs T ref exons with
      | none => errJ "other:IndexError"
      | some out => match Base.omap (decode T) out with
        | some t => Json.mkObj [("names", names), ("rows", natListList t)]
        | none => errJ "other:undecodable"
    let s := match decode T ref with
      | some t => Json.mkObj [("names", names), ("rows", natListList (specTranscripts t exons))]
      | none => errJ "other:undecodable"
    pure (reply m (some s))
  | _ => throw s!"C14: unknown op {op}"

end Drv.C14
