import BnpVerif.Proto
import BnpVerif.Model.C12
import BnpVerif.Gen.C12
namespace Drv.C12
open Lean Proto _root_.C12

def raised : Json := Json.mkObj [("err", str "raised")]

def parseChunk (v : Json) : Except String (List (Nat × Nat)) := do
  let a ← v.getArr?
  a.toList.mapM (fun e => do
    let p ← e.getArr?
    match p.toList with
    | [n, i] => pure (← n.getNat?, ← i.getNat?)
    | _ => throw "entry")

def parseStreams (j : Json) : Except String (List (List Group)) := do
  let ss ← getArr j "streams"
  ss.mapM (fun s => do
    let chunks ← (← s.getArr?).toList.mapM parseChunk
    pure (groupsOfChunks chunks))

def itemsJ (l : List Item) : Json := natListList l
def rowsJ (rows : List (List Item)) : Json := Json.arr (rows.map itemsJ).toArray

def optJ {α} (f : α → Json) : Option α → Json
  | some a => f a
  | none => raised

def outJ (l : List Item) : Json := Json.mkObj [("out", itemsJ l)]
def flatJ (l : List Item) : Json := Json.mkObj [("flat", natList l.flatten)]
def rowsObj (rows : List (List Item)) : Json := Json.mkObj [("rows", rowsJ rows)]

def fuel : Nat := 64

def handle (op : String) (j : Json) : Except String Json := do
  let included ← getNatList j "included"
  let plainOrder ← getNatList j "plainOrder"
  let ignored ← getNatList j "ignored"
  let all ← getNatList j "all"
  let streams ← parseStreams j
  let g0 := streams.getD 0 []
  let g1 := streams.getD 1 []
  -- the variant of the generators is the one the running code shows (Gen/C12.lean)
  let order := if Gen.C12.orderSkipsUnderscore then plainOrder else included
  let mkIter := fun (gs : List Group) =>
    if Gen.C12.iterLookahead then M.lookIter (IterSt.init order included ignored gs) .fresh
    else M.iter (IterSt.init order included ignored gs)
  let mkSync := fun (gs : List Group) =>
    if Gen.C12.syncLookahead then M.lookSync (SyncSt.init all gs) .fresh else M.sync (SyncSt.init all gs)
  let blanks := fun (n : Nat) => M.plain (List.replicate n [])
  let zipSpec := fun (a b : Option (List Item)) => match a, b with
    | some x, some y => some ((x.zip y).map (fun p => [p.1, p.2]))
    | _, _ => none
  match op with
  | "mem_pair" =>
    -- several genomes, one after the other, same in-memory data: pull-all `iter_chromosomes`, and the mask
    -- through the computation graph (name stream first)
    let gs ← getArr j "gs"
    let res ← gs.mapM (fun g => do
      let inc ← getNatList g "included"
      let po ← getNatList g "plainOrder"
      let ig ← getNatList g "ignored"
      let ord := if Gen.C12.orderSkipsUnderscore then po else inc
      let mk := fun (gs : List Group) =>
        if Gen.C12.iterLookahead then M.lookIter (IterSt.init ord inc ig gs) .fresh else M.iter (IterSt.init ord inc ig gs)
      let n := inc.length
      let mIter := pullAll M.pull fuel (mk g0)
      let mMask := graphColumn fuel n (mk g0)
      let sp := specSync inc ig g0
      pure (Json.arr #[optJ outJ mIter, optJ outJ mMask], Json.arr #[optJ outJ sp, optJ outJ sp]))
    pure (reply (Json.mkObj [("res", Json.arr (res.map (·.1)).toArray)])
      (some (Json.mkObj [("res", Json.arr (res.map (·.2)).toArray)])))
  | "iter" =>
    pure (reply (optJ outJ (pullAll M.pull fuel (mkIter g0))) (some (optJ outJ (specSync included ignored g0))))
  | "genome_compute" =>
    pure (reply (optJ flatJ (pullAll M.pull fuel (mkIter g0))) (some (optJ flatJ (specSync included ignored g0))))
  | "iter_zip" =>
    pure (reply (optJ rowsObj (zipAll fuel [mkIter g0, mkIter g1]))
      (some (optJ rowsObj (zipSpec (specSync included ignored g0) (specSync included ignored g1)))))
  | "genome_mask" | "track" =>
    -- the computation graph pulls the chromosome-name stream first, then the data stream, then the sizes
    let n := included.length
    let m := graphColumn fuel n (mkIter g0)
    pure (reply (optJ outJ m) (some (optJ outJ (specSync included ignored g0))))
  | "ms" =>
    pure (reply (optJ outJ (pullAll M.pull fuel (mkSync g0))) (some (optJ outJ (specSync all [] g0))))
  | "ms_zip" =>
    let lengths ← getNatList j "lengths"
    let m := zipAll fuel [mkSync g0, mkSync g1, M.plain (lengths.map (fun l => [l]))]
    let s := match specSync all [] g0, specSync all [] g1 with
      | some x, some y => some (((x.zip y).zip lengths).map (fun p => [p.1.1, p.1.2, [p.2]]))
      | _, _ => none
    pure (reply (optJ rowsObj m) (some (optJ rowsObj s)))
  | "jaccard" | "forbes" =>
    let m := zipAll fuel [mkSync g0, mkSync g1, blanks all.length]
    pure (reply (optJ rowsObj m) none)
  | "left_join" =>
    pure (reply (optJ outJ (pullAll LjSt.pull fuel (LjSt.init all g0))) (some (optJ outJ (specSync all [] g0))))
  | _ => throw s!"C12: unknown op {op}"

end Drv.C12
