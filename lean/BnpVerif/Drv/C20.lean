import BnpVerif.Proto
import BnpVerif.Model.C20
namespace Drv.C20
open Lean Proto _root_.C20

def mkState (bufs : List Bytes) : State :=
  { heap := bufs.map (fun d => { data := d, writable := true }),
    env := (List.range bufs.length).zip bufs |>.map (fun (i, d) => some { buf := i, idx := List.range d.length }) }

/-- run the program twice on the same argument bindings (second run on the heap the first left);
report which argument buffers changed and whether the result variable reads the same -/
def twice (prog : List Step) (bufs : List Bytes) (resVars : List Nat) : Except String (List String × Bool × List Bytes) := do
  let s0 := mkState bufs
  let some s1 := run prog s0 | throw "model: first run raised"
  let some s2 := run prog { heap := s1.heap, env := s0.env } | throw "model: second run raised"
  let changed (s : State) (tag : String) : List String :=
    (List.range bufs.length).filterMap (fun i =>
      if (s.heap[i]?).map (·.data) == (s0.heap[i]?).map (·.data) then none else some s!"arg{i}:{tag}")
  let r1 := readAll s1.heap s1.env resVars
  let r2 := readAll s2.heap s2.env resVars
  pure (changed s1 "call1" ++ changed s2 "call2", r1 == r2, r1)

def runningMax (l : List Nat) : List Nat :=
  (l.foldl (fun (p : List Nat × Nat) s => let m := max p.2 s; (p.1 ++ [m], m)) ([], 0)).1

def pick (vals : List Nat) (mask : List Nat) : List Nat :=
  ((vals.zip mask).filter (fun p => p.2 != 0)).map (·.1)

def bincount (l : List Nat) : List Nat :=
  match l.max? with
  | none => []
  | some m => (List.range (m + 1)).map (fun v => l.count v)

def reply3 (r : List String × Bool × List Bytes) (value : Json) : Json :=
  Json.mkObj [("mutated", Json.arr (r.1.map Json.str).toArray), ("twice_equal", Json.bool r.2.1), ("value", value)]

def handle (op : String) (j : Json) : Except String Json := do
  match op with
  | "m_str_to_int" =>
    let rows ← getNatListList j "rows"
    let lens := rows.map List.length
    -- result: per row (negative?, magnitude)
    let value : List Bytes → Bytes := fun a =>
      let zeroed := splitRows (a.headD []) lens
      let orig := splitRows (a.getD 2 []) lens
      (zeroed.zip orig).flatMap (fun (z, o) => [if o.head? == some 45 then 1 else 0, digitsValue z])
    let r ← twice (strToInt value) [rows.flatten, lens] [3]
    let flat := r.2.2.headD []
    let rec pairs : List Nat → List Int
      | s :: m :: rest => (if s == 1 then -(m : Int) else (m : Int)) :: pairs rest
      | _ => []
    pure (reply (reply3 r (intList (pairs flat))))
  | "m_fresh" =>
    -- str_to_int on a fresh row selection rows[lo:hi] of a text column: var 0 = the selection (a reference into the column's
    -- buffer), var 1 = its row lengths
    let rows ← getNatListList j "rows"
    let lo ← getNat j "lo"
    let hi ← getNat j "hi"
    let sel := (rows.drop lo).take (hi - lo)
    let lens := sel.map List.length
    let off := ((rows.take lo).map List.length).sum
    let n := lens.sum
    let s0 : State := { heap := [{ data := rows.flatten, writable := true }, { data := lens, writable := true }],
                        env := [some { buf := 0, idx := (List.range n).map (· + off) }, some { buf := 1, idx := List.range lens.length }] }
    let value : List Bytes → Bytes := fun a =>
      let zeroed := splitRows (a.headD []) lens
      let orig := splitRows (a.getD 2 []) lens
      (zeroed.zip orig).flatMap (fun (z, o) => [if o.head? == some 45 then 1 else 0, digitsValue z])
    let some s1 := run (strToIntFresh value) s0 | throw "model: first run raised"
    let some s2 := run (strToIntFresh value) { heap := s1.heap, env := s1.env.take 2 } | throw "model: second run raised"
    let parentChanged := (s2.heap[0]?).map (·.data) != some rows.flatten
    let selNow := readAll s2.heap s2.env [0]
    let mutated := (if parentChanged then ["arg0:parent-of-selection"] else []) ++ (if selNow != [sel.flatten] then ["arg0:selection-contents"] else [])
    let r1 := readAll s1.heap s1.env [3]
    let r2 := readAll s2.heap s2.env [3]
    let rec pairsF : List Nat → List Int
      | s :: m :: rest => (if s == 1 then -(m : Int) else (m : Int)) :: pairsF rest
      | _ => []
    pure (reply (Json.mkObj [("mutated", Json.arr (mutated.map Json.str).toArray), ("twice_equal", Json.bool (r1 == r2)),
                            ("value", intList (pairsF (r1.headD [])))]))
  | "m_merge" =>
    let start ← getNatList j "start"
    let stop ← getNatList j "stop"
    let d ← getNat j "d"
    let prog := mergeIntervals
      (fun a => runningMax (a.headD []))
      (fun a => ((a.headD []).drop 1).zip (a.getD 1 []) |>.map (fun (s, e) => if s > e then 1 else 0))
      (fun a => pick (a.headD []) (1 :: a.getD 1 []))
      (fun a => pick (a.headD []) (a.getD 1 [] ++ [1]))
      (fun cur _ => cur.map (· + d))
      (fun cur _ => cur.map (· - d))
    let r ← twice prog [start, stop] [4, 5]
    pure (reply (reply3 r (natListList r.2.2)))
  | "m_bincount" =>
    let a ← getNatList j "a"
    let b ← getNatList j "b"
    let (x, y) := if (bincount a).length ≥ (bincount b).length then (a, b) else (b, a)
    let add : Bytes → List Bytes → Bytes := fun cur s =>
      let o := s.headD []
      (List.range cur.length).map (fun i => cur.getD i 0 + o.getD i 0)
    let r ← twice (bincountStream (fun s => bincount (s.headD [])) add) [x, y] [2]
    -- report argument names in the caller's order
    pure (reply (reply3 r (natList (r.2.2.headD []))))
  | _ => throw s!"C20: unknown op {op}"

end Drv.C20
