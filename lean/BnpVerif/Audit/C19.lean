import BnpVerif.Props.C19
#print axioms C19.inv
#print axioms C19.step_wf
#print axioms C19.toRows_length
#print axioms C19.toRows_getElem?
#print axioms C19.take_rows
#print axioms C19.mask_rows
#print axioms C19.concat_rows
#print axioms C19.sortBy_rows
#print axioms C19.sortBy_sorted
#print axioms C19.sortBy_total
#print axioms C19.replace_rows
#print axioms C19.addFields_rows
#print axioms C19.toRows_toRows
#print axioms C19.rows_inverse
#print axioms C19.rows_table_rows
#print axioms C19.fromRowsOld_unsound
