import BnpVerif.Props.C19
/-! Scope of the theorems below (audit review #22). Two clauses of C19 have NO Lean counterpart and are established by
the correspondence only (harness/props/c19.py against the pure-Python list-of-tuples oracle, every run):
* "to and from pandas are mutually inverse": `to_pandas` / `from_data_frame` are run on every table type and compared
  cell by cell with the oracle; pandas is an external and is not modelled.
* "the operands are unchanged": the model is functional, so the clause is trivially true of it and says nothing
  about the code; the harness snapshots every operand (and, with `live_cases`, every earlier result) before an
  operation and compares it afterwards, including after a LATER call.
The dict round trip IS modelled (`fromDict_toDict`); the typed constructor and `add_fields` inference are kernel-checked
over tables regenerated from the running code (`construct_*`, `infer_*`), i.e. they are statements about the tabulated
dispatch, not about Python source. -/
#print axioms C19.inv
#print axioms C19.step_wf
#print axioms C19.toRows_length
#print axioms C19.toRows_getElem?
#print axioms C19.take_rows
#print axioms C19.mask_rows
#print axioms C19.concat_rows
#print axioms C19.sortBy_rows
#print axioms C19.sortBy_sorted
#print axioms C19.sortBy_total
#print axioms C19.replace_rows
#print axioms C19.addFields_rows
#print axioms C19.toRows_toRows
#print axioms C19.rows_inverse
#print axioms C19.rows_table_rows
#print axioms C19.fromRowsOld_unsound
#print axioms C19.construct_converts_or_raises
#print axioms C19.construct_table_complete
#print axioms C19.fromDict_toDict
#print axioms C19.fromDict_dotted_name_unsound
#print axioms C19.toRows_column
#print axioms C19.predMask_rows
#print axioms C19.predMask_total
#print axioms C19.infer_natural_class
#print axioms C19.infer_table_complete
#print axioms C19.mem_maskIdx
#print axioms C19.maskIdx_sorted
#print axioms C19.gather_eq_map
#print axioms C19.concat_getElem?
#print axioms C19.take_none_iff
#print axioms C19.mask_none_iff
#print axioms C19.replaceCol_none_iff
#print axioms C19.take_range
#print axioms C19.take_take
#print axioms C19.concat_assoc
#print axioms C19.argsort_of_sorted
#print axioms C19.sortBy_idempotent
#print axioms C19.argsort_stable
#print axioms C19.construct_census
#print axioms C19.construct_whitelists_tight
#print axioms C19.step_refines_rows
#print axioms C19.run_refines_rows
#print axioms C19.pyIndex_none_iff
#print axioms C19.pyIndex_some
#print axioms C19.pick_refines_rows
