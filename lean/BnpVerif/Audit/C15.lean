import BnpVerif.Props.C15
#print axioms C15.validateChunk_shift
#print axioms C15.validateChunk_first
#print axioms C15.line_number_kline
#print axioms C15.rowOfOffsetMatrix_spec
#print axioms C15.rowOfOffsetRagged_spec
#print axioms C15.line_number_delimited
#print axioms C15.line_number_cols
#print axioms C15.readValidate_line
#print axioms C15.reported_none_iff
#print axioms C15.readValidate_none_iff
#print axioms C15.chunk_size_independent
#print axioms C15.validateOld_chunk_dependent
#print axioms C15.readValidateRows_line
#print axioms C15.readValidateRows_none_iff
#print axioms C15.rows_chunk_size_independent
