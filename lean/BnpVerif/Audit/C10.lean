import BnpVerif.Props.C10
#print axioms C10.toLocal_eq_spec
#print axioms C10.local_global_bijection
#print axioms C10.inside_positions_own_chromosome
#print axioms C10.cover_local
#print axioms C10.extract_reversed
#print axioms C10.mask_data_spec
#print axioms C10.merge_global_unsound
#print axioms C10.merge_per_chromosome
#print axioms C10.clip_extend_windows_inside
#print axioms C10.sorted_genome_order
#print axioms C10.traced_kernels
#print axioms C10.global_is_concat
#print axioms C10.stream_per_chromosome
#print axioms C10.location_inside
#print axioms C10.geometry_sort_genome_order
#print axioms C10.name_lookup_partial
#print axioms C10.merge_checked
