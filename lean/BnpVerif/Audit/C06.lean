import BnpVerif.Props.C06
#print axioms C06.spec_encode_iff
#print axioms C06.spec_decode_encode
#print axioms C06.encode_iff
#print axioms C06.decode_encode
#print axioms C06.firstBad_spec
#print axioms C06.ragged_shape
#print axioms C06.gen_tables_ok
#print axioms C06.gen_names
#print axioms C06.gen_alphabets
#print axioms C06.predefined
#print axioms C06.retarget_sound
#print axioms C06.retargetOld_unsound
#print axioms C06.change_encoding_sound
#print axioms C06.retargetFull_sound
