import BnpVerif.Props.C07
#print axioms C07.natural
#print axioms C07.programs
#print axioms C07.eq_char
#print axioms C07.strEqual_map
#print axioms C07.split_join
#print axioms C07.slice_in_range
#print axioms C07.reverse_slice
