import BnpVerif.Props.C04
