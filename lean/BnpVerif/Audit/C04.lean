import BnpVerif.Props.C04
#print axioms C04.select_refines
#print axioms C04.concat_refines
#print axioms C04.compact_preserves
#print axioms C04.bytes_spec
#print axioms C04.program_abs
#print axioms C04.program_bytes
#print axioms C04.field_text
#print axioms C04.program_fields
#print axioms C04.rest_text
#print axioms C04.sam_extra_text
#print axioms C04.replace_fields
#print axioms C04.program_replace
#print axioms C04.bam_records
#print axioms C04.invB_sound
#print axioms C04.buildOld_unsound
#print axioms C04.buildFixed_witness
