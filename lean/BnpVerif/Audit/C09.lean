import BnpVerif.Props.C09
#print axioms C09.bedgraph_dense
#print axioms C09.bedgraph_dense_nosize
#print axioms C09.toArray_dense_bool
#print axioms C09.toArray_dense_bits
#print axioms C09.toArray_dense_int
#print axioms C09.mapRle_dense
#print axioms C09.slice_dense
#print axioms C09.back_conversion
#print axioms C09.back_conversion_bool
#print axioms C09.zipRuns_dense
#print axioms C09.ufunc_homomorphism
#print axioms C09.sum_dense
#print axioms C09.hist_dense
#print axioms C09.intervals_values_dense
#print axioms C09.getTrackOld_unsound
#print axioms C09.track_dense
#print axioms C09.chromSlices_eq
