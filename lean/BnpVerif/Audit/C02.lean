import BnpVerif.Props.C02
#print axioms C02.fieldTable_spec
#print axioms C02.digitMatrix_value
#print axioms C02.intColumn_spec
#print axioms C02.signedRow_spec
#print axioms C02.idColumn_spec
#print axioms C02.listColumn_spec
#print axioms C02.intListColumn_spec
#print axioms C02.splitRowsOld_unsound
#print axioms C02.optIntColumn_spec
#print axioms C02.optIntColumnOld_unsound
#print axioms C02.gen_schemas
#print axioms C02.gen_kline
#print axioms C02.gen_shifts
#print axioms C02.vcf_pos
