import BnpVerif.Props.C17
#print axioms C17.layout
#print axioms C17.layout_newline
#print axioms C17.fetch_interval
#print axioms C17.index_rows
#print axioms C17.fetch_contig
#print axioms C17.random_access
#print axioms C17.contig_lengths
#print axioms C17.index_chunks
#print axioms C17.fai_roundtrip
#print axioms C17.genome_sizes
#print axioms C17.fai_file
#print axioms C17.traced_kernel
#print axioms C17.traced_bytes_to_read
#print axioms C17.fetch_uses_traced
#print axioms C17.fast_path_same
#print axioms C17.index_reader_chunks
#print axioms C17.contig_lengths_old_unsound
