import BnpVerif.Props.C17
#print axioms C17.contig_lengths_old_unsound
