import BnpVerif.Props.C08
#print axioms C08.placeholder
