import BnpVerif.Props.C18
#print axioms C18.power_array
#print axioms C18.width_spec
#print axioms C18.format_int
#print axioms C18.parse_int
#print axioms C18.parse_format
#print axioms C18.spec_roundtrip
#print axioms C18.batch_independent
#print axioms C18.int_lists
#print axioms C18.split_join
#print axioms C18.int_lists_roundtrip
#print axioms C18.float_logic_partial
#print axioms C18.float_logic_sci_partial
#print axioms C18.format_int_old_unsound_min
#print axioms C18.format_int_old_unsound_pow
