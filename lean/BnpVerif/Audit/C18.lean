import BnpVerif.Props.C18
#print axioms C18.power_array
#print axioms C18.width_spec
#print axioms C18.format_int
#print axioms C18.format_int_old_unsound_min
#print axioms C18.format_int_old_unsound_pow
