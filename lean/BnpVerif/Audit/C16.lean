import BnpVerif.Props.C16
#print axioms C16.decode_encode
#print axioms C16.decodeChunk_encode
#print axioms C16.chunked
#print axioms C16.chunk_bound_needed
#print axioms C16.write_back
#print axioms C16.selectBytes_encode
#print axioms C16.unmapped
#print axioms C16.unmappedOld_unsound
#print axioms C16.cigarBytesOld_unsound
#print axioms C16.ref_interval
#print axioms C16.ref_interval_file
#print axioms C16.gen_consumes
#print axioms C16.gen_cigar_letters
#print axioms C16.gen_seq_letters
#print axioms C16.gen_rules_repaired
#print axioms C16.gen_probe_ok
