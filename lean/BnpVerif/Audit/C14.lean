import BnpVerif.Props.C14
#print axioms C14.specRevComp_invol
#print axioms C14.revcomp_def
#print axioms C14.revcomp_def_flat
#print axioms C14.revcomp_lengths
#print axioms C14.revcomp_involutive
#print axioms C14.strand_specific
#print axioms C14.translate_std
#print axioms C14.gen_tables_ok
#print axioms C14.gen_names
#print axioms C14.gen_dec
#print axioms C14.gen_codon_ok
#print axioms C14.families_partition
#print axioms C14.predefined
#print axioms C14.translate
#print axioms C14.revcompOld_unsound
#print axioms C14.strandSpecificOld_fails
