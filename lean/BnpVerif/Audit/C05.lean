import BnpVerif.Props.C05
#print axioms C05.R_get
#print axioms C05.step_index
#print axioms C05.step_replace
#print axioms C05.R_setattr
#print axioms C05.dataObject_spec
#print axioms C05.concatNew_spec
#print axioms C05.step_concat
#print axioms C05.write_equal
#print axioms C05.step_preserves
#print axioms C05.programs
#print axioms C05.programs_values
#print axioms C05.lazy_eager_equiv
#print axioms C05.concatOld_unsound
#print axioms C05.setattrOld_unsound
#print axioms C05.buffer_index_refines
#print axioms C05.buffer_concat_refines
