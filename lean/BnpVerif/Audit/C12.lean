import BnpVerif.Props.C12
#print axioms C12.gen_flags
