import BnpVerif.Props.C12
#print axioms C12.gen_flags
#print axioms C12.zip_second_unsound
#print axioms C12.graph_single_stream_unsound
#print axioms C12.underscore_unsound
#print axioms C12.zip_fixed_witness
#print axioms C12.groups_chunking
#print axioms C12.sync_complete
#print axioms C12.sync_complete_any_consumer
#print axioms C12.synched_complete
#print axioms C12.synched_complete_any_consumer
#print axioms C12.left_join_complete
#print axioms C12.zip_columns_complete
#print axioms C12.ragged_change_iff
#print axioms C12.repeated_group_unsound
#print axioms C12.compatible_iff_sublist
#print axioms C12.sync_chunking_independent
