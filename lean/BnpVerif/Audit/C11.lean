import BnpVerif.Props.C11
#print axioms C11.mean_chunks_partial
#print axioms C11.bincount_chunks
#print axioms C11.histogram_chunks
#print axioms C11.count_kmers_chunks
#print axioms C11.join_runs
#print axioms C11.groupby_chunks
#print axioms C11.groupby_chunks_any_keys
#print axioms C11.groupby_fast_needs_contig
#print axioms C11.sorted_contig
#print axioms C11.chop_flatten
#print axioms C11.chop_sizes
#print axioms C11.rechunk_entries
#print axioms C11.rechunk_lines
#print axioms C11.rechunk
#print axioms C11.chunkEntriesOld_unsound
#print axioms C11.chunkLinesOld_unsound
#print axioms C11.streamComputeOld_unsound
