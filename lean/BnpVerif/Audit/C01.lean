import BnpVerif.Props.C01
#print axioms C01.accumulate_spec
#print axioms C01.readChunk_spec
#print axioms C01.readAll_bytes
#print axioms C01.lines_chunks
#print axioms C01.kLine_laws
#print axioms C01.readAll_bytes_kLine
#print axioms C01.readAll_delimited
#print axioms C01.readAll_old_loses
#print axioms C01.readAll_old_loses_fasta
#print axioms C01.fasta_laws
#print axioms C01.readAll_bytes_fasta
#print axioms C01.entries_chunks_kLine
#print axioms C01.whole_read
#print axioms C01.chunked_eq_whole
#print axioms C01.accumulateCap_refines
#print axioms C01.capped_read
