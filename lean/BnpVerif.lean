import BnpVerif.Proto
