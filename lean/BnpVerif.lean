import BnpVerif.Proto
import BnpVerif.Props.C06
import BnpVerif.Drv.C06
