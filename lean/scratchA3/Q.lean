import BnpVerif.Props.C08
namespace C08
open Base.Rle

/-! ## count_overlap / intersect: the "independently sorted starts and stops" formulas -/

/-- pairs `(start, stop)` whose starts and whose stops are both sorted: the number of pairs containing `x`
is (#starts ≤ x) − (#stops ≤ x) -/
theorem cov_sorted_pairs (Z : List Iv) (x : Nat) (h1 : (Z.map (·.1)).Pairwise (· ≤ ·)) (h2 : (Z.map (·.2)).Pairwise (· ≤ ·)) :
    cov Z x = Z.countP (fun z => decide (z.1 ≤ x)) - Z.countP (fun z => decide (z.2 ≤ x)) := by
  induction Z with
  | nil => rfl
  | cons z Z ih =>
    simp only [List.map_cons] at h1 h2
    have ih' := ih (List.pairwise_cons.1 h1).2 (List.pairwise_cons.1 h2).2
    have hs : ∀ y ∈ Z, z.1 ≤ y.1 := fun y hy => (List.pairwise_cons.1 h1).1 y.1 (List.mem_map_of_mem hy)
    have he : ∀ y ∈ Z, z.2 ≤ y.2 := fun y hy => (List.pairwise_cons.1 h2).1 y.2 (List.mem_map_of_mem hy)
    simp only [cov, List.countP_cons] at ih' ⊢
    simp only [inIv]
    by_cases hx : x < z.2
    · -- no stop is ≤ x
      have hE : Z.countP (fun z => decide (z.2 ≤ x)) = 0 := by
        apply List.countP_eq_zero.2
        intro y hy; have := he y hy; simp; omega
      have hcov : Z.countP (inIv x) = Z.countP (fun z => decide (z.1 ≤ x)) := by
        apply List.countP_congr
        intro y hy; have := he y hy
        simp only [inIv, Bool.and_eq_true, decide_eq_true_eq]
        constructor
        · exact fun h => h.1
        · exact fun h => ⟨h, by omega⟩
      rw [hE, hcov]
      have h4 : ¬ z.2 ≤ x := by omega
      by_cases h3 : z.1 ≤ x <;> simp [h3, hx, h4]
    · by_cases h3 : z.1 ≤ x
      · simp only [h3, hx, decide_true, decide_false, Bool.and_false, Bool.false_eq_true, if_false, if_true,
          show z.2 ≤ x from by omega]
        omega
      · -- no start is ≤ x
        have hS : Z.countP (fun z => decide (z.1 ≤ x)) = 0 := by
          apply List.countP_eq_zero.2
          intro y hy; have := hs y hy; simp; omega
        have hcov : Z.countP (inIv x) = 0 := by
          apply List.countP_eq_zero.2
          intro y hy; have := hs y hy; simp [inIv]; omega
        rw [hS, hcov]
        simp [h3]

end C08
