import BnpVerif.Model.C08
import BnpVerif.Gen.C08
namespace C08
open Base.Rle

/-! ## stable insertion sort -/
theorem insertBy_perm {α : Type} (le : α → α → Bool) (a : α) (l : List α) : (insertBy le a l).Perm (a :: l) := by
  induction l with
  | nil => exact List.Perm.refl _
  | cons b bs ih =>
    simp only [insertBy]
    split
    · exact List.Perm.refl _
    · exact (List.Perm.cons b ih).trans (List.Perm.swap a b bs)

theorem isort_perm {α : Type} (le : α → α → Bool) (l : List α) : (isort le l).Perm l := by
  induction l with
  | nil => exact List.Perm.refl _
  | cons a as ih => exact (insertBy_perm le a _).trans (List.Perm.cons a ih)

theorem insertBy_pairwise {α : Type} (le : α → α → Bool) (htot : ∀ a b, le a b = true ∨ le b a = true)
    (htr : ∀ a b c, le a b = true → le b c = true → le a c = true) (a : α) (l : List α)
    (h : l.Pairwise (fun x y => le x y = true)) : (insertBy le a l).Pairwise (fun x y => le x y = true) := by
  induction l with
  | nil => simp [insertBy]
  | cons b bs ih =>
    simp only [insertBy]
    rw [List.pairwise_cons] at h
    split
    · rename_i hab
      refine List.pairwise_cons.2 ⟨?_, List.pairwise_cons.2 h⟩
      intro x hx
      rcases List.mem_cons.1 hx with rfl | hx
      · exact hab
      · exact htr _ _ _ hab (h.1 x hx)
    · rename_i hab
      refine List.pairwise_cons.2 ⟨?_, ih h.2⟩
      intro x hx
      have : x ∈ a :: bs := (insertBy_perm le a bs).mem_iff.1 hx
      rcases List.mem_cons.1 this with rfl | hx
      · rcases htot x b with h1 | h1
        · exact absurd h1 hab
        · exact h1
      · exact h.1 x hx

theorem isort_pairwise {α : Type} (le : α → α → Bool) (htot : ∀ a b, le a b = true ∨ le b a = true)
    (htr : ∀ a b c, le a b = true → le b c = true → le a c = true) (l : List α) :
    (isort le l).Pairwise (fun x y => le x y = true) := by
  induction l with
  | nil => simp [isort]
  | cons a as ih => exact insertBy_pairwise le htot htr a _ ih

/-! ## merge: the vectorised form equals the recursive form -/

def vecGo (d cs ce : Nat) (rest : List Iv) : List Iv :=
  let starts := rest.map (·.1)
  let stops := (runMax ce (rest.map (·.2))).map (· + d)
  let valid := List.zipWith (fun s t => decide (s > t)) starts ((ce + d) :: stops)
  (cs :: select valid starts).zip ((select (valid ++ [true]) ((ce + d) :: stops)).map (· - d))

theorem vecGo_eq (d : Nat) (rest : List Iv) : ∀ cs ce, vecGo d cs ce rest = mergeGo d cs ce rest := by
  induction rest with
  | nil => intro cs ce; simp [vecGo, mergeGo, select, runMax]
  | cons x rest ih =>
    intro cs ce
    obtain ⟨s, e⟩ := x
    have ih1 := ih s (max ce e)
    have ih2 := ih cs (max ce e)
    simp only [vecGo] at ih1 ih2 ⊢
    simp only [mergeGo, List.map_cons, runMax, List.zipWith_cons_cons]
    by_cases h : s > ce + d
    · simp only [h, decide_true, select, List.cons_append, List.map_cons, List.zip_cons_cons, ite_true]
      rw [ih1]
      simp
    · simp only [h, decide_false, select, List.cons_append, ite_false]
      rw [ih2]

theorem mergeVec_eq_mergeRec (d : Nat) (I : List Iv) : mergeVec d I = mergeRec d I := by
  cases I with
  | nil => rfl
  | cons x rest =>
    obtain ⟨s, e⟩ := x
    have := vecGo_eq d rest s e
    simp only [vecGo] at this
    simp only [mergeVec, mergeRec, List.map_cons, runMax, List.tail_cons, Nat.zero_max, select]
    rw [← this]

end C08
