import BnpVerif.Props.C08Core
namespace C08
open Base.Rle

/-- the driver's executable sortedness test is the `SortedByStart` of the theorems -/
theorem sortedByStart_iff (I : List Iv) : sortedByStart I = true ↔ SortedByStart I := by
  induction I with
  | nil => simp [sortedByStart, SortedByStart]
  | cons a I ih =>
    cases I with
    | nil => simp [sortedByStart, SortedByStart]
    | cons b I =>
      have e : sortedByStart (a :: b :: I) = (decide (a.1 ≤ b.1) && sortedByStart (b :: I)) := by
        simp [sortedByStart]
      rw [e, Bool.and_eq_true, ih]
      simp only [SortedByStart, decide_eq_true_eq]
      constructor
      · rintro ⟨h1, h2⟩
        refine List.pairwise_cons.2 ⟨?_, h2⟩
        intro c hc
        rcases List.mem_cons.1 hc with rfl | hc
        · exact h1
        · have := (List.pairwise_cons.1 h2).1 c hc; omega
      · intro h
        exact ⟨(List.pairwise_cons.1 h).1 b (by simp), (List.pairwise_cons.1 h).2⟩

/-- Jaccard / Forbes over several contigs: the model's value is the per-base definition (same IEEE quotient of the
same counts) -/
theorem jaccard_forbes_spec (cs : List Contig2)
    (h : ∀ c ∈ cs, 0 < c.1 ∧ (∀ iv ∈ c.2.1, iv.1 ≤ iv.2 ∧ iv.2 ≤ c.1) ∧ (∀ iv ∈ c.2.2, iv.1 ≤ iv.2 ∧ iv.2 ≤ c.1)) :
    jaccard cs = specJaccard cs ∧ forbes cs = specForbes cs := by
  have : contingencyGenome cs = specContingencyGenome cs := by
    simp only [contingencyGenome, specContingencyGenome]
    congr 1
    apply List.map_congr_left
    intro c hc
    exact contingency_spec c.2.1 c.2.2 c.1 (h c hc).1 (h c hc).2.1 (h c hc).2.2
  simp only [jaccard, specJaccard, forbes, specForbes, this, and_self]

example : ∀ c ∈ [((5 : Nat), [((0 : Nat), (3 : Nat))], [((2 : Nat), (5 : Nat))]), (3, [], [(1, 2)])],
    0 < c.1 ∧ (∀ iv ∈ c.2.1, iv.1 ≤ iv.2 ∧ iv.2 ≤ c.1) ∧ (∀ iv ∈ c.2.2, iv.1 ≤ iv.2 ∧ iv.2 ≤ c.1) := by decide

end C08
