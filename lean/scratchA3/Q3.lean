import BnpVerif.Props.C08
namespace C08
open Base.Rle

theorem cov_append (A B : List Iv) (x : Nat) : cov (A ++ B) x = cov A x + cov B x := by
  simp [cov, List.countP_append]

theorem cov_filter_nonempty' (Z : List Iv) (x : Nat) : cov (Z.filter (fun p => decide (p.2 > p.1))) x = cov Z x := by
  induction Z with
  | nil => rfl
  | cons z Z ih =>
    simp only [List.filter_cons]
    split
    · simp only [cov, List.countP_cons] at ih ⊢; rw [ih]
    · rename_i h
      simp only [cov, List.countP_cons] at ih ⊢
      rw [ih]
      have : inIv x z = false := by
        simp only [gt_iff_lt, decide_eq_true_eq, Nat.not_lt] at h
        simp only [inIv]
        cases h1 : decide (z.1 ≤ x) <;> cases h2 : decide (x < z.2) <;> simp_all
        omega
      simp [this]

/-- `intersect` (for any two interval lists with start ≤ stop): the returned pieces cover every base
`depth − 1` times, where depth is the number of intervals of `A ++ B` covering it -/
theorem intersect_depth (A B : List Iv) (h : ∀ iv ∈ A ++ B, iv.1 ≤ iv.2) (x : Nat) :
    cov (intersect A B) x = cov (A ++ B) x - 1 := by
  simp only [intersect]
  rw [cov_filter_nonempty', ← List.map_append, ← List.map_append]
  exact cov_pairing (A ++ B) h x

theorem disjointSorted_pairwise (L : List Iv) (h : disjointSorted L = true) :
    L.Pairwise (fun a b => a.2 ≤ b.1) ∧ ∀ a ∈ L, a.1 < a.2 := by
  induction L with
  | nil => simp
  | cons a L ih =>
    cases L with
    | nil => simp [disjointSorted] at h ⊢; exact h
    | cons b L =>
      simp only [disjointSorted, Bool.and_eq_true, decide_eq_true_eq] at h
      obtain ⟨⟨h1, h2⟩, h3⟩ := h
      obtain ⟨ih1, ih2⟩ := ih h3
      refine ⟨List.pairwise_cons.2 ⟨?_, ih1⟩, ?_⟩
      · intro c hc
        rcases List.mem_cons.1 hc with rfl | hc
        · exact h2
        · have := (List.pairwise_cons.1 ih1).1 c hc
          have := ih2 b (by simp)
          omega
      · intro c hc
        rcases List.mem_cons.1 hc with rfl | hc
        · exact h1
        · exact ih2 c hc

theorem cov_le_one_of_pairwise (L : List Iv) (h1 : L.Pairwise (fun a b => a.2 ≤ b.1)) (h2 : ∀ a ∈ L, a.1 < a.2) (x : Nat) :
    cov L x ≤ 1 := by
  induction L with
  | nil => simp [cov]
  | cons a L ih =>
    have ih' := ih (List.pairwise_cons.1 h1).2 (fun b hb => h2 b (by simp [hb]))
    simp only [cov, List.countP_cons] at ih' ⊢
    by_cases hin : inIv x a = true
    · have : L.countP (inIv x) = 0 := by
        apply List.countP_eq_zero.2
        intro b hb
        have := (List.pairwise_cons.1 h1).1 b hb
        simp only [inIv, Bool.and_eq_true, decide_eq_true_eq] at hin ⊢
        omega
      rw [this]; simp [hin]
    · simp [hin]; exact ih'

theorem cov_perm {I J : List Iv} (h : I.Perm J) (x : Nat) : cov I x = cov J x := h.countP_eq _

theorem cov_le_one (A : List Iv) (h : internallyDisjoint A = true) (x : Nat) : cov A x ≤ 1 := by
  obtain ⟨h1, h2⟩ := disjointSorted_pairwise _ h
  rw [← cov_perm (isort_perm startLe A) x]
  exact cov_le_one_of_pairwise _ h1 h2 x

theorem internallyDisjoint_le (A : List Iv) (h : internallyDisjoint A = true) : ∀ iv ∈ A, iv.1 ≤ iv.2 := by
  intro iv hiv
  have := (disjointSorted_pairwise _ h).2 iv ((isort_perm startLe A).mem_iff.2 hiv)
  omega

/-- **intersect** on internally non-overlapping operands: every base covered by both `A` and `B` is covered by
exactly one returned piece, every other base by none -/
theorem intersect_perbase (A B : List Iv) (dA : internallyDisjoint A = true) (dB : internallyDisjoint B = true) (x : Nat) :
    cov (intersect A B) x = if 0 < cov A x ∧ 0 < cov B x then 1 else 0 := by
  rw [intersect_depth A B (fun iv hiv => by
    rcases List.mem_append.1 hiv with h | h
    · exact internallyDisjoint_le A dA iv h
    · exact internallyDisjoint_le B dB iv h) x, cov_append]
  have := cov_le_one A dA x
  have := cov_le_one B dB x
  split <;> omega

end C08
