import BnpVerif.Props.C08
namespace C08
open Base.Rle

/-! ## the hypotheses are satisfiable by non-trivial values; the restricted domain of count_overlap -/

example : SortedByStart [(0, 3), (1, 2), (3, 5), (9, 12)] ∧ ∀ iv ∈ [((0 : Nat), (3 : Nat)), (1, 2), (3, 5), (9, 12)], iv.1 < iv.2 := by
  unfold SortedByStart; decide

example : mergeVec 2 [(0, 3), (1, 2), (3, 5), (7, 8), (11, 12)] = [(0, 8), (11, 12)] := by decide

example : (0 : Nat) < 20 ∧ ∀ iv ∈ [((3 : Nat), (8 : Nat)), (5, 7), (10, 12), (0, 0), (12, 20)], iv.1 ≤ iv.2 ∧ iv.2 ≤ 20 := by decide

example : maskDense [(3, 8), (5, 7), (0, 0), (0, 1)] 9 = [true, false, false, true, true, true, true, true, false] := by decide

example : (0 : Int) ≤ 10 ∧ (-3 : Int) ≤ 12 ∧ (-3 : Int) ≤ 10 ∧ (0 : Int) ≤ 12 := by decide

/-- for a nested operand the "independently sorted starts and stops" formula of `count_overlap` is not the
per-base value: the precondition "each operand internally non-overlapping" is part of the function's domain -/
theorem countOverlap_nested_not_perbase :
    internallyDisjoint [(0, 3), (1, 2)] = false ∧
    countOverlap [(0, 3), (1, 2)] [(0, 1)] = 2 ∧ specCountOverlap [(0, 3), (1, 2)] [(0, 1)] 3 = 1 := by decide

end C08
