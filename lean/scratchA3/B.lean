import BnpVerif.Model.C08
namespace C08
open Base.Rle

theorem covered_iff (I : List Iv) (p : Nat) : covered I p = true ↔ ∃ iv ∈ I, iv.1 ≤ p ∧ p < iv.2 := by
  simp [covered, inIv, List.any_eq_true]

theorem cov_pos_iff (I : List Iv) (p : Nat) : 0 < cov I p ↔ ∃ iv ∈ I, iv.1 ≤ p ∧ p < iv.2 := by
  simp [cov, inIv, List.countP_pos_iff]

theorem cov_pos_iff_covered (I : List Iv) (p : Nat) : 0 < cov I p ↔ covered I p = true := by
  rw [cov_pos_iff, covered_iff]

theorem covered_cons (x : Iv) (I : List Iv) (p : Nat) :
    covered (x :: I) p = true ↔ (x.1 ≤ p ∧ p < x.2) ∨ covered I p = true := by
  simp [covered, inIv]

def SortedByStart (I : List Iv) : Prop := I.Pairwise (fun a b => a.1 ≤ b.1)

/-- d = 0: the merged runs cover exactly the current run and the covered bases of the rest -/
theorem mergeGo_cover0 (rest : List Iv) : ∀ cs ce, (∀ iv ∈ rest, cs ≤ iv.1) → SortedByStart rest → ∀ p,
    (covered (mergeGo 0 cs ce rest) p = true ↔ (cs ≤ p ∧ p < ce) ∨ covered rest p = true) := by
  induction rest with
  | nil => intro cs ce _ _ p; simp [mergeGo, covered, inIv]
  | cons x rest ih =>
    intro cs ce hcs hs p
    obtain ⟨s, e⟩ := x
    have hs' : SortedByStart rest := (List.pairwise_cons.1 hs).2
    have hle : ∀ iv ∈ rest, s ≤ iv.1 := fun iv h => (List.pairwise_cons.1 hs).1 iv h
    have hcs' : cs ≤ s := hcs (s, e) (by simp)
    simp only [mergeGo, Nat.add_zero]
    split
    · rename_i h
      rw [covered_cons, ih s (max ce e) hle hs' p, covered_cons]
      have key : (s ≤ p ∧ p < max ce e) ↔ (s ≤ p ∧ p < e) := by omega
      simp only [key]
    · rename_i h
      rw [ih cs (max ce e) (fun iv hiv => Nat.le_trans hcs' (hle iv hiv)) hs' p, covered_cons]
      have key : (cs ≤ p ∧ p < max ce e) ↔ ((cs ≤ p ∧ p < ce) ∨ (s ≤ p ∧ p < e)) := by omega
      simp only [key, or_assoc]

/-- every covered base stays covered, for every distance -/
theorem mergeGo_superset (d : Nat) (rest : List Iv) : ∀ cs ce, (∀ iv ∈ rest, cs ≤ iv.1) → SortedByStart rest → ∀ p,
    ((cs ≤ p ∧ p < ce) ∨ covered rest p = true) → covered (mergeGo d cs ce rest) p = true := by
  induction rest with
  | nil => intro cs ce _ _ p; simp [mergeGo, covered, inIv]
  | cons x rest ih =>
    intro cs ce hcs hs p
    obtain ⟨s, e⟩ := x
    have hs' : SortedByStart rest := (List.pairwise_cons.1 hs).2
    have hle : ∀ iv ∈ rest, s ≤ iv.1 := fun iv h => (List.pairwise_cons.1 hs).1 iv h
    have hcs' : cs ≤ s := hcs (s, e) (by simp)
    simp only [mergeGo]
    rw [covered_cons]
    simp only
    split
    · rename_i h
      intro hp
      rw [covered_cons]
      rcases hp with hp | hp | hp
      · exact Or.inl hp
      · exact Or.inr (ih s (max ce e) hle hs' p (Or.inl (by omega)))
      · exact Or.inr (ih s (max ce e) hle hs' p (Or.inr hp))
    · rename_i h
      intro hp
      refine ih cs (max ce e) (fun iv hiv => Nat.le_trans hcs' (hle iv hiv)) hs' p ?_
      rcases hp with hp | hp | hp
      · exact Or.inl (by omega)
      · exact Or.inl (by omega)
      · exact Or.inr hp

/-- outputs' endpoints are input endpoints -/
theorem mergeGo_endpoints (d : Nat) (rest : List Iv) : ∀ cs ce, ∀ x ∈ mergeGo d cs ce rest,
    (x.1 = cs ∨ x.1 ∈ rest.map (·.1)) ∧ (x.2 = ce ∨ x.2 ∈ rest.map (·.2)) := by
  induction rest with
  | nil => intro cs ce x hx; simp [mergeGo] at hx; simp [hx]
  | cons y rest ih =>
    intro cs ce x hx
    obtain ⟨s, e⟩ := y
    simp only [mergeGo] at hx
    split at hx
    · rcases List.mem_cons.1 hx with rfl | hx
      · simp
      · have := ih s (max ce e) x hx
        simp only [List.map_cons, List.mem_cons]
        constructor
        · rcases this.1 with h | h
          · exact Or.inr (Or.inl h)
          · exact Or.inr (Or.inr h)
        · rcases this.2 with h | h
          · rcases Nat.le_total ce e with h2 | h2
            · rw [Nat.max_eq_right h2] at h; exact Or.inr (Or.inl h)
            · rw [Nat.max_eq_left h2] at h; exact Or.inl h
          · exact Or.inr (Or.inr h)
    · have := ih cs (max ce e) x hx
      simp only [List.map_cons, List.mem_cons]
      constructor
      · rcases this.1 with h | h
        · exact Or.inl h
        · exact Or.inr (Or.inr h)
      · rcases this.2 with h | h
        · rcases Nat.le_total ce e with h2 | h2
          · rw [Nat.max_eq_right h2] at h; exact Or.inr (Or.inl h)
          · rw [Nat.max_eq_left h2] at h; exact Or.inl h
        · exact Or.inr (Or.inr h)

/-- every output start is ≥ the current run's start (sorted input) -/
theorem mergeGo_start_ge (d : Nat) (rest : List Iv) (cs ce : Nat) (hcs : ∀ iv ∈ rest, cs ≤ iv.1) :
    ∀ x ∈ mergeGo d cs ce rest, cs ≤ x.1 := by
  intro x hx
  rcases (mergeGo_endpoints d rest cs ce x hx).1 with h | h
  · omega
  · obtain ⟨iv, hiv, h2⟩ := List.mem_map.1 h
    rw [← h2]
    exact hcs iv hiv

/-- maximality: any two outputs are more than `d` apart -/
theorem mergeGo_separated (d : Nat) (rest : List Iv) : ∀ cs ce, (∀ iv ∈ rest, cs ≤ iv.1) → SortedByStart rest →
    (mergeGo d cs ce rest).Pairwise (fun a b => a.2 + d < b.1) := by
  induction rest with
  | nil => intro cs ce _ _; simp [mergeGo]
  | cons x rest ih =>
    intro cs ce hcs hs
    obtain ⟨s, e⟩ := x
    have hs' : SortedByStart rest := (List.pairwise_cons.1 hs).2
    have hle : ∀ iv ∈ rest, s ≤ iv.1 := fun iv h => (List.pairwise_cons.1 hs).1 iv h
    have hcs' : cs ≤ s := hcs (s, e) (by simp)
    simp only [mergeGo]
    split
    · rename_i h
      refine List.pairwise_cons.2 ⟨?_, ih s (max ce e) hle hs'⟩
      intro y hy
      have := mergeGo_start_ge d rest s (max ce e) hle y hy
      simp only
      omega
    · exact ih cs (max ce e) (fun iv hiv => Nat.le_trans hcs' (hle iv hiv)) hs'

/-- inside an output run every base is within `d` of a covered base to its right (only gaps ≤ d are bridged) -/
theorem mergeGo_bridged (d : Nat) (U : Nat → Prop) (rest : List Iv) : ∀ cs ce,
    (∀ iv ∈ rest, iv.1 < iv.2 ∧ ∀ q, iv.1 ≤ q → q < iv.2 → U q) →
    (∀ p, cs ≤ p → p < ce → ∃ q, p ≤ q ∧ q ≤ p + d ∧ U q) →
    ∀ x ∈ mergeGo d cs ce rest, ∀ p, x.1 ≤ p → p < x.2 → ∃ q, p ≤ q ∧ q ≤ p + d ∧ U q := by
  induction rest with
  | nil =>
    intro cs ce _ h x hx p h1 h2
    simp [mergeGo] at hx
    subst hx
    exact h p h1 h2
  | cons y rest ih =>
    intro cs ce hU h x hx
    obtain ⟨s, e⟩ := y
    have hU' : ∀ iv ∈ rest, iv.1 < iv.2 ∧ ∀ q, iv.1 ≤ q → q < iv.2 → U q := fun iv hiv => hU iv (by simp [hiv])
    have hse := hU (s, e) (by simp)
    simp only at hse
    simp only [mergeGo] at hx
    split at hx
    · rename_i hgt
      rcases List.mem_cons.1 hx with rfl | hx
      · exact fun p h1 h2 => h p h1 h2
      · refine ih s (max ce e) hU' ?_ x hx
        intro p h1 h2
        exact ⟨p, Nat.le_refl _, by omega, hse.2 p h1 (by omega)⟩
    · rename_i hgt
      refine ih cs (max ce e) hU' ?_ x hx
      intro p h1 h2
      by_cases hp : p < ce
      · exact h p h1 hp
      · by_cases hps : s ≤ p
        · exact ⟨p, Nat.le_refl _, by omega, hse.2 p hps (by omega)⟩
        · exact ⟨s, by omega, by omega, hse.2 s (Nat.le_refl _) hse.1⟩

theorem mergeGo_nonempty (d : Nat) (rest : List Iv) : ∀ cs ce, cs < ce → (∀ iv ∈ rest, iv.1 < iv.2) →
    ∀ x ∈ mergeGo d cs ce rest, x.1 < x.2 := by
  induction rest with
  | nil => intro cs ce h _ x hx; simp [mergeGo] at hx; subst hx; exact h
  | cons y rest ih =>
    intro cs ce h hne x hx
    obtain ⟨s, e⟩ := y
    have hse : s < e := hne (s, e) (by simp)
    have hne' : ∀ iv ∈ rest, iv.1 < iv.2 := fun iv hiv => hne iv (by simp [hiv])
    simp only [mergeGo] at hx
    split at hx
    · rcases List.mem_cons.1 hx with rfl | hx
      · exact h
      · exact ih s (max ce e) (by omega) hne' x hx
    · exact ih cs (max ce e) (by omega) hne' x hx

end C08
