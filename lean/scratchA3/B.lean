import BnpVerif.Props.C08Core
namespace C08
open Base.Rle

/-! ## merge_intervals equals the per-base scan `specMerge` -/

theorem mergeGo_absorb (d : Nat) (rest : List Iv) : ∀ cs ce s e, (∀ iv ∈ rest, s ≤ iv.1) → SortedByStart rest →
    mergeGo d cs ce (mergeGo 0 s e rest) = mergeGo d cs ce ((s, e) :: rest) := by
  induction rest with
  | nil => intro cs ce s e _ _; rfl
  | cons y rest ih =>
    intro cs ce s e hs hsorted
    obtain ⟨s', e'⟩ := y
    have hs' : SortedByStart rest := (List.pairwise_cons.1 hsorted).2
    have hle : ∀ iv ∈ rest, s' ≤ iv.1 := fun iv h => (List.pairwise_cons.1 hsorted).1 iv h
    have hss' : s ≤ s' := hs (s', e') (by simp)
    rw [show mergeGo 0 s e ((s', e') :: rest) =
      (if s' > e + 0 then (s, e) :: mergeGo 0 s' (max e e') rest else mergeGo 0 s (max e e') rest) from rfl]
    by_cases h1 : s' > e + 0
    · rw [if_pos h1]
      -- outer step on (s, e), then the absorbed tail
      simp only [mergeGo]
      by_cases h2 : s > ce + d
      · simp only [h2, if_true]
        rw [ih s (max ce e) s' (max e e') hle hs']
        simp only [mergeGo]
        rw [show max (max ce e) (max e e') = max (max ce e) e' by omega]
      · simp only [h2, if_false]
        rw [ih cs (max ce e) s' (max e e') hle hs']
        simp only [mergeGo]
        rw [show max (max ce e) (max e e') = max (max ce e) e' by omega]
    · rw [if_neg h1]
      rw [ih cs ce s (max e e') (fun iv hiv => Nat.le_trans hss' (hle iv hiv)) hs']
      simp only [mergeGo]
      have h3 : ¬ s' > max ce e + d := by omega
      by_cases h2 : s > ce + d
      · simp only [h2, if_true, h3, if_false]
        rw [show max ce (max e e') = max (max ce e) e' by omega]
      · simp only [h2, if_false, h3]
        rw [show max ce (max e e') = max (max ce e) e' by omega]

theorem mergeRec_absorb (d : Nat) (rest : List Iv) : ∀ s e, (∀ iv ∈ rest, s ≤ iv.1) → SortedByStart rest →
    mergeRec d (mergeGo 0 s e rest) = mergeGo d s e rest := by
  induction rest with
  | nil => intro s e _ _; rfl
  | cons y rest ih =>
    intro s e hs hsorted
    obtain ⟨s', e'⟩ := y
    have hs' : SortedByStart rest := (List.pairwise_cons.1 hsorted).2
    have hle : ∀ iv ∈ rest, s' ≤ iv.1 := fun iv h => (List.pairwise_cons.1 hsorted).1 iv h
    have hss' : s ≤ s' := hs (s', e') (by simp)
    rw [show mergeGo 0 s e ((s', e') :: rest) =
      (if s' > e + 0 then (s, e) :: mergeGo 0 s' (max e e') rest else mergeGo 0 s (max e e') rest) from rfl]
    by_cases h1 : s' > e + 0
    · rw [if_pos h1]
      simp only [mergeRec]
      rw [mergeGo_absorb d rest s e s' (max e e') hle hs']
      simp only [mergeGo]
      rw [show max e (max e e') = max e e' by omega]
    · rw [if_neg h1, ih s (max e e') (fun iv hiv => Nat.le_trans hss' (hle iv hiv)) hs']
      simp only [mergeGo]
      rw [if_neg (by omega)]

/-- merging with distance `d` is merging the maximal runs with distance `d` -/
theorem merge_merge0 (d : Nat) (I : List Iv) (hs : SortedByStart I) : mergeRec d (mergeRec 0 I) = mergeRec d I := by
  cases I with
  | nil => rfl
  | cons x rest =>
    obtain ⟨s, e⟩ := x
    exact mergeRec_absorb d rest s e (fun iv h => (List.pairwise_cons.1 hs).1 iv h) (List.pairwise_cons.1 hs).2

end C08
