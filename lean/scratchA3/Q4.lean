import BnpVerif.Props.C08
namespace C08
open Base.Rle

theorem count_range_interval (s e : Nat) : ∀ n, (List.range n).countP (fun x => inIv x (s, e)) = min e n - s := by
  intro n
  induction n with
  | zero => simp
  | succ n ih =>
    rw [List.range_succ, List.countP_append, ih]
    simp only [List.countP_cons, List.countP_nil, inIv, Nat.zero_add]
    by_cases h : s ≤ n ∧ n < e
    · simp [h.1, h.2]; omega
    · have : (decide (s ≤ n) && decide (n < e)) = false := by
        simp only [Bool.and_eq_false_imp, decide_eq_true_eq, decide_eq_false_iff_not]
        intro h1 h2; exact h ⟨h1, h2⟩
      simp [this]; omega

theorem countP_eq_sum_ite {α : Type} (p : α → Bool) (l : List α) :
    l.countP p = (l.map (fun a => if p a then 1 else 0)).sum := by
  induction l with
  | nil => rfl
  | cons a l ih => simp only [List.countP_cons, List.map_cons, List.sum_cons, ih]; omega

theorem sum_map_add {α : Type} (f g : α → Nat) (l : List α) :
    (l.map (fun a => f a + g a)).sum = (l.map f).sum + (l.map g).sum := by
  induction l with
  | nil => rfl
  | cons a l ih => simp only [List.map_cons, List.sum_cons, ih]; omega

/-- counting covered (interval, base) pairs by intervals or by bases gives the same number -/
theorem sum_lengths_eq_sum_cov (Z : List Iv) (n : Nat) :
    (Z.map (fun z => (List.range n).countP (fun x => inIv x z))).sum = ((List.range n).map (fun x => cov Z x)).sum := by
  induction Z with
  | nil => simp [cov, List.map_const', List.sum_replicate_nat]
  | cons z Z ih =>
    simp only [List.map_cons, List.sum_cons, ih, cov, List.countP_cons]
    rw [sum_map_add, countP_eq_sum_ite]
    omega

theorem sum_int_cast (l : List Nat) : (l.map (fun n : Nat => (n : Int))).sum = ((l.sum : Nat) : Int) := by
  induction l with
  | nil => rfl
  | cons a l ih => simp only [List.map_cons, List.sum_cons, ih]; omega

/-- `count_overlap` for any two interval lists inside the contig: the sum of `depth − 1` over the bases -/
theorem countOverlap_depth (A B : List Iv) (size : Nat) (h : ∀ iv ∈ A ++ B, iv.1 ≤ iv.2 ∧ iv.2 ≤ size) :
    countOverlap A B = ((((List.range size).map (fun x => cov (A ++ B) x - 1)).sum : Nat) : Int) := by
  obtain ⟨Z, hZ⟩ : ∃ Z, Z = (isort natLe ((A ++ B).map (·.1))).tail.zip (isort natLe ((A ++ B).map (·.2))) := ⟨_, rfl⟩
  have hco : countOverlap A B = (Z.map (fun z => ((z.2 - z.1 : Nat) : Int))).sum := by
    simp only [countOverlap, ← List.map_append]
    rw [hZ, List.zipWith_comm, ← List.map_uncurry_zip_eq_zipWith]
    congr 1
    apply List.map_congr_left
    intro p _
    simp only [Function.uncurry]; omega
  have hle : ∀ z ∈ Z, z.2 ≤ size := by
    intro z hz
    rw [hZ] at hz
    have := (List.of_mem_zip (a := z.1) (b := z.2) hz).2
    obtain ⟨iv, hiv, h2⟩ := List.mem_map.1 ((isort_perm natLe _).mem_iff.1 this)
    rw [← h2]; exact (h iv hiv).2
  rw [hco]
  have : (Z.map (fun z => ((z.2 - z.1 : Nat) : Int))) = (Z.map (fun z : Iv => z.2 - z.1)).map (fun n : Nat => (n : Int)) := by
    rw [List.map_map]; rfl
  rw [this, sum_int_cast]
  congr 1
  have hlen : Z.map (fun z : Iv => z.2 - z.1) = Z.map (fun z => (List.range size).countP (fun x => inIv x z)) := by
    apply List.map_congr_left
    intro z hz
    rw [count_range_interval z.1 z.2 size, Nat.min_eq_left (hle z hz)]
  rw [hlen, sum_lengths_eq_sum_cov]
  congr 1
  apply List.map_congr_left
  intro x _
  rw [hZ]
  exact cov_pairing (A ++ B) (fun iv hiv => (h iv hiv).1) x

/-- **count_overlap** on internally non-overlapping operands equals the number of bases covered by both -/
theorem countOverlap_perbase (A B : List Iv) (size : Nat) (hA : ∀ iv ∈ A, iv.2 ≤ size) (hB : ∀ iv ∈ B, iv.2 ≤ size)
    (dA : internallyDisjoint A = true) (dB : internallyDisjoint B = true) :
    countOverlap A B = (specCountOverlap A B size : Int) := by
  rw [countOverlap_depth A B size (fun iv hiv => by
    rcases List.mem_append.1 hiv with h | h
    · exact ⟨internallyDisjoint_le A dA iv h, hA iv h⟩
    · exact ⟨internallyDisjoint_le B dB iv h, hB iv h⟩)]
  congr 1
  rw [specCountOverlap, countP_eq_sum_ite]
  congr 1
  apply List.map_congr_left
  intro x _
  rw [cov_append]
  have := cov_le_one A dA x
  have := cov_le_one B dB x
  by_cases h1 : 0 < cov A x <;> by_cases h2 : 0 < cov B x <;> simp [h1, h2] <;> omega

example : internallyDisjoint [(5, 8), (0, 3), (3, 4)] = true ∧ internallyDisjoint [(2, 6)] = true := by decide

end C08
