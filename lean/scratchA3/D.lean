import BnpVerif.Props.C09
namespace C09
open Base.Rle

/-! ## `join_runs` under an equality test that is not Lean's `=` (IEEE `==` on floats) -/

theorem joinPairsBy_beq {V : Type} [BEq V] (ps : List (Nat × V)) : joinPairsBy (· == ·) ps = joinPairs ps := by
  induction ps with
  | nil => rfl
  | cons p ps ih =>
    obtain ⟨e, v⟩ := p
    cases ps with
    | nil => rfl
    | cons q ps =>
      obtain ⟨e', v'⟩ := q
      simp only [joinPairsBy, joinPairs, ih]

theorem zipRleBy_beq {α β γ : Type} [BEq γ] (f : α → β → γ) (a : Rle α) (b : Rle β) :
    zipRleBy (· == ·) f a b = zipRle f a b := by
  simp only [zipRleBy, zipRle, joinPairsBy_beq]

/-- two lists agree position by position up to `R` -/
def RelL {V : Type} (R : V → V → Prop) (l₁ l₂ : List V) : Prop :=
  l₁.length = l₂.length ∧ ∀ p ∈ l₁.zip l₂, R p.1 p.2

theorem RelL.refl {V : Type} {R : V → V → Prop} (hr : ∀ a, R a a) (l : List V) : RelL R l l := by
  refine ⟨rfl, ?_⟩
  intro p hp
  induction l with
  | nil => simp at hp
  | cons a l ih =>
    simp only [List.zip_cons_cons, List.mem_cons] at hp
    rcases hp with rfl | hp
    · exact hr a
    · exact ih hp

theorem RelL.append {V : Type} {R : V → V → Prop} {a b c d : List V} (h1 : RelL R a b) (h2 : RelL R c d) :
    RelL R (a ++ c) (b ++ d) := by
  refine ⟨by simp [h1.1, h2.1], ?_⟩
  intro p hp
  rw [List.zip_append h1.1] at hp
  rcases List.mem_append.1 hp with hp | hp
  · exact h1.2 p hp
  · exact h2.2 p hp

theorem RelL.trans {V : Type} {R : V → V → Prop} (ht : ∀ a b c, R a b → R b c → R a c) :
    ∀ {a b c : List V}, RelL R a b → RelL R b c → RelL R a c := by
  intro a
  induction a with
  | nil =>
    intro b c h1 h2
    have : b = [] := by cases b with | nil => rfl | cons _ _ => exact absurd h1.1 (by simp)
    subst this
    have : c = [] := by cases c with | nil => rfl | cons _ _ => have := h2.1; simp at this
    subst this
    exact ⟨rfl, by simp⟩
  | cons x a ih =>
    intro b c h1 h2
    cases b with
    | nil => have := h1.1; simp at this
    | cons y b =>
      cases c with
      | nil => have := h2.1; simp at this
      | cons z c =>
        have h1' : RelL R a b := ⟨by simpa using h1.1, fun p hp => h1.2 p (by simp [hp])⟩
        have h2' : RelL R b c := ⟨by simpa using h2.1, fun p hp => h2.2 p (by simp [hp])⟩
        have := ih h1' h2'
        refine ⟨by simp [this.1], ?_⟩
        intro p hp
        simp only [List.zip_cons_cons, List.mem_cons] at hp
        rcases hp with rfl | hp
        · exact ht _ _ _ (h1.2 (x, y) (by simp)) (h2.2 (y, z) (by simp))
        · exact this.2 p hp

theorem RelL.replicate {V : Type} {R : V → V → Prop} (n : Nat) {a b : V} (h : R a b) :
    RelL R (List.replicate n a) (List.replicate n b) := by
  refine ⟨by simp, ?_⟩
  intro p hp
  induction n with
  | zero => simp at hp
  | succ n ih =>
    simp only [List.replicate_succ, List.zip_cons_cons, List.mem_cons] at hp
    rcases hp with rfl | hp
    · exact h
    · exact ih hp

/-- equal, or equal under the test -/
def EqOr {V : Type} (eq : V → V → Bool) (a b : V) : Prop := a = b ∨ eq a b = true

theorem EqOr.refl {V : Type} (eq : V → V → Bool) (a : V) : EqOr eq a a := Or.inl rfl

theorem EqOr.trans' {V : Type} {eq : V → V → Bool} (ht : ∀ a b c, eq a b = true → eq b c = true → eq a c = true) :
    ∀ a b c, EqOr eq a b → EqOr eq b c → EqOr eq a c := by
  intro a b c h1 h2
  rcases h1 with rfl | h1
  · exact h2
  · rcases h2 with rfl | h2
    · exact Or.inr h1
    · exact Or.inr (ht a b c h1 h2)

/-- joining runs whose values are equal *under the test* changes the dense meaning only up to that test: every
position keeps a value that the test (an equivalence: symmetric, transitive) identifies with the original one -/
theorem joinPairsBy_rel {V : Type} (eq : V → V → Bool) (hs : ∀ a b, eq a b = true → eq b a = true)
    (ht : ∀ a b c, eq a b = true → eq b c = true → eq a c = true) (ps : List (Nat × V)) : ∀ c, Mono c ps →
    RelL (EqOr eq) (expandP c (joinPairsBy eq ps)) (expandP c ps) := by
  induction ps with
  | nil => intro c _; exact RelL.refl (EqOr.refl eq) _
  | cons p ps ih =>
    intro c hm
    obtain ⟨e, v⟩ := p
    cases ps with
    | nil => exact RelL.refl (EqOr.refl eq) _
    | cons q ps =>
      obtain ⟨e', v'⟩ := q
      obtain ⟨h1, h2, h3⟩ := hm
      simp only [joinPairsBy]
      split
      · rename_i heq
        have ih' := ih c ⟨by omega, h3⟩
        refine RelL.trans (EqOr.trans' ht) ih' ?_
        simp only [expandP]
        rw [replicate_split v' c e e' h1 h2, List.append_assoc]
        exact RelL.append (RelL.replicate _ (Or.inr (hs _ _ heq))) (RelL.refl (EqOr.refl eq) _)
      · simp only [expandP]
        exact RelL.append (RelL.refl (EqOr.refl eq) _) (ih e ⟨h2, h3⟩)

theorem joinPairsBy_sublist {V : Type} (eq : V → V → Bool) (ps : List (Nat × V)) : (joinPairsBy eq ps).Sublist ps := by
  induction ps with
  | nil => exact List.Sublist.slnil
  | cons p ps ih =>
    obtain ⟨e, v⟩ := p
    cases ps with
    | nil => exact List.Sublist.refl _
    | cons q ps =>
      obtain ⟨e', v'⟩ := q
      simp only [joinPairsBy]
      split
      · exact List.Sublist.cons _ ih
      · exact List.Sublist.cons₂ _ ih

/-- **ufunc homomorphism for any equality test** (the float engine: `join_runs` compares with IEEE `==`): the result
is a well-formed run-length array and its dense meaning is the element-wise ufunc of the dense operands at every
position *up to the test* — for IEEE `==` on finite values: up to the sign of zero. With Lean's `=` this is
`ufunc_homomorphism`. -/
theorem ufunc_homomorphism_rel {α β γ : Type} (eq : γ → γ → Bool) (hs : ∀ a b, eq a b = true → eq b a = true)
    (ht : ∀ a b c, eq a b = true → eq b c = true → eq a c = true) (f : α → β → γ) (a : Rle α) (b : Rle β)
    (ha : a.WF) (hb : b.WF) :
    (zipRleBy eq f a b).WF ∧ RelL (EqOr eq) (zipRleBy eq f a b).toDense (List.zipWith f a.toDense b.toDense) := by
  obtain ⟨ha1, ha2⟩ := pairsOf_of_WF a ha
  obtain ⟨hb1, hb2⟩ := pairsOf_of_WF b hb
  have hz := zipRuns_lower f _ _ 0 ha1 hb1
  constructor
  · refine ⟨by simp [zipRleBy, ofPairs], rfl, ?_⟩
    simp only [zipRleBy, ofPairs]
    simp only [SMono] at hz
    have hsub : (0 :: (joinPairsBy eq (zipRuns f (pairsOf a) (pairsOf b))).map (·.1)).Sublist
        (0 :: (zipRuns f (pairsOf a) (pairsOf b)).map (·.1)) :=
      List.Sublist.cons₂ _ ((joinPairsBy_sublist eq _).map _)
    exact List.Pairwise.sublist hsub hz
  · simp only [zipRleBy]
    rw [ofPairs_dense, ← ha2, ← hb2, ← zipRuns_dense f _ _ 0 ha1.mono hb1.mono]
    exact joinPairsBy_rel eq hs ht _ 0 hz.mono

end C09
