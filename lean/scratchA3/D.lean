import BnpVerif.Model.C08
namespace C08
open Base.Rle

/-! ## from_intervals: events/values → dense -/

/-- alternating values of a given total length -/
def alt {V : Type} (a b : V) : Nat → List V
  | 0 => []
  | m + 1 => a :: alt b a m

theorem alt_length {V : Type} : ∀ (m : Nat) (a b : V), (alt a b m).length = m := by
  intro m; induction m with
  | zero => intro a b; rfl
  | succ m ih => intro a b; simp [alt, ih]

theorem tile2_eq_alt {V : Type} (a b : V) : ∀ n, tile2 a b n = alt a b (2 * n) := by
  intro n; induction n with
  | zero => rfl
  | succ n ih =>
    have : 2 * (n + 1) = (2 * n + 1) + 1 := by omega
    rw [this]; simp [tile2, alt, ih]

theorem take_alt {V : Type} : ∀ (m j : Nat) (a b : V), j ≤ m → (alt a b m).take j = alt a b j := by
  intro m; induction m with
  | zero => intro j a b h; have : j = 0 := by omega
            subst this; rfl
  | succ m ih =>
    intro j a b h
    cases j with
    | zero => rfl
    | succ j => simp [alt, ih j b a (by omega)]

theorem mem_interleave {α : Type} : ∀ (S E : List α) (x : α), x ∈ interleave S E → x ∈ S ∨ x ∈ E := by
  intro S
  induction S with
  | nil => intro E x h; simp [interleave] at h
  | cons s S ih =>
    intro E x h
    cases E with
    | nil => simp [interleave] at h
    | cons e E =>
      simp only [interleave, List.mem_cons] at h ⊢
      rcases h with h | h | h
      · exact Or.inl (Or.inl h)
      · exact Or.inr (Or.inl h)
      · rcases ih E x h with h | h
        · exact Or.inl (Or.inr h)
        · exact Or.inr (Or.inr h)

theorem interleave_length (K : List Iv) : (interleave (K.map (·.1)) (K.map (·.2))).length = 2 * K.length := by
  induction K with
  | nil => rfl
  | cons x K ih => simp [interleave, ih]; omega

/-- separated, non-empty intervals in increasing order (what `get_boolean_mask` hands to `from_intervals`) -/
def Sep (K : List Iv) : Prop := K.Pairwise (fun a b => a.2 < b.1) ∧ ∀ iv ∈ K, iv.1 < iv.2

theorem Sep.tail {x : Iv} {K : List Iv} (h : Sep (x :: K)) : Sep K :=
  ⟨(List.pairwise_cons.1 h.1).2, fun iv hiv => h.2 iv (by simp [hiv])⟩

theorem events_pairwise (K : List Iv) : Sep K → ∀ (post : List Nat), (∀ x ∈ post, ∀ iv ∈ K, iv.2 < x) →
    post.Pairwise (· < ·) → (interleave (K.map (·.1)) (K.map (·.2)) ++ post).Pairwise (· < ·) := by
  induction K with
  | nil => intro _ post _ hp; simpa [interleave] using hp
  | cons x K ih =>
    intro hsep post hpost hp
    obtain ⟨s, e⟩ := x
    have hse : s < e := hsep.2 (s, e) (by simp)
    have hgt : ∀ iv ∈ K, e < iv.1 := fun iv hiv => (List.pairwise_cons.1 hsep.1).1 iv hiv
    have ihK := ih hsep.tail post (fun x hx iv hiv => hpost x hx iv (by simp [hiv])) hp
    simp only [List.map_cons, interleave, List.cons_append]
    have hall : ∀ y ∈ interleave (K.map (·.1)) (K.map (·.2)) ++ post, e < y := by
      intro y hy
      rcases List.mem_append.1 hy with hy | hy
      · rcases mem_interleave _ _ y hy with h | h
        · obtain ⟨iv, hiv, rfl⟩ := List.mem_map.1 h
          exact hgt iv hiv
        · obtain ⟨iv, hiv, rfl⟩ := List.mem_map.1 h
          have := hgt iv hiv
          have := hsep.2 iv (by simp [hiv])
          omega
      · exact hpost y hy (s, e) (by simp)
    refine List.pairwise_cons.2 ⟨?_, List.pairwise_cons.2 ⟨hall, ihK⟩⟩
    intro y hy
    rcases List.mem_cons.1 hy with rfl | hy
    · exact hse
    · have := hall y hy; omega

theorem ends_lt_size (size : Nat) (K : List Iv) : Sep K → (∀ iv ∈ K, iv.2 ≤ size) →
    (K.map (·.2)).getLast? ≠ some size → ∀ iv ∈ K, iv.2 < size := by
  induction K with
  | nil => intro _ _ _ iv h; simp at h
  | cons x K ih =>
    intro hsep hle hlast iv hiv
    cases K with
    | nil =>
      simp only [List.mem_singleton] at hiv
      subst hiv
      simp only [List.map_cons, List.map_nil, List.getLast?_singleton, ne_eq, Option.some.injEq] at hlast
      have := hle iv (by simp)
      omega
    | cons y K =>
      have ih' := ih hsep.tail (fun iv hiv => hle iv (by simp [hiv])) (by simpa using hlast)
      rcases List.mem_cons.1 hiv with rfl | hiv
      · have h1 : iv.2 < y.1 := (List.pairwise_cons.1 hsep.1).1 y (by simp)
        have h2 : y.1 < y.2 := hsep.2 y (by simp)
        have h3 := hle y (by simp)
        omega
      · exact ih' iv hiv

/-- dense meaning of separated intervals from position `c` on -/
def denseIv (size : Nat) : Nat → List Iv → List Bool
  | c, [] => List.replicate (size - c) false
  | c, (s, e) :: K => List.replicate (s - c) false ++ List.replicate (e - s) true ++ denseIv size e K

def lastEnd : Nat → List Iv → Nat
  | c, [] => c
  | _, (_, e) :: K => lastEnd e K

theorem lastEnd_eq (K : List Iv) : ∀ c, lastEnd c K = ((K.map (·.2)).getLast?).getD c := by
  induction K with
  | nil => intro c; rfl
  | cons x K ih =>
    intro c
    obtain ⟨s, e⟩ := x
    simp only [lastEnd, ih e]
    cases K with
    | nil => rfl
    | cons y K =>
      obtain ⟨v, hv⟩ : ∃ v, (List.map (fun x : Iv => x.2) (y :: K)).getLast? = some v :=
        ⟨_, List.getLast?_eq_some_getLast (by simp)⟩
      simp only [List.map_cons] at hv ⊢
      rw [List.getLast?_cons_cons, hv]; rfl

theorem runs_alt (size : Nat) (K : List Iv) : ∀ (c : Nat) (post : List Nat),
    (post = [size] ∨ (post = [] ∧ lastEnd c K = size)) →
    runs (c :: (interleave (K.map (·.1)) (K.map (·.2)) ++ post)) (alt false true (2 * K.length + post.length))
      = denseIv size c K := by
  induction K with
  | nil =>
    intro c post h
    rcases h with rfl | ⟨rfl, h⟩
    · simp [interleave, alt, runs, denseIv]
    · simp only [lastEnd] at h
      subst h
      simp [interleave, alt, runs, denseIv]
  | cons x K ih =>
    intro c post h
    obtain ⟨s, e⟩ := x
    have e1 : 2 * ((s, e) :: K).length + post.length = (2 * K.length + post.length) + 1 + 1 := by
      simp only [List.length_cons]; omega
    rw [e1]
    simp only [List.map_cons, interleave, List.cons_append, alt, runs, denseIv]
    rw [ih e post (by simpa [lastEnd] using h)]
    simp

theorem fromIntervals_values (K : List Iv) (size : Nat) :
    let S := K.map (·.1); let E := K.map (·.2)
    (fromIntervals S E size true false).values =
      if S.head? = some 0 then alt true false ((fromIntervals S E size true false).events.length - 1)
      else alt false true ((fromIntervals S E size true false).events.length - 1) := by
  intro S E
  simp only [fromIntervals, tile2_eq_alt]
  split
  · rename_i h
    generalize (([] : List Nat) ++ interleave S E ++ if E.getLast? = some size then [] else [size]).length = L
    have hn : 2 * (L / 2 + 1) = (2 * (L / 2) + 1) + 1 := by omega
    rw [hn]
    simp only [alt, List.tail_cons]
    exact take_alt (2 * (L / 2) + 1) (L - 1) true false (by omega)
  · generalize (([0] : List Nat) ++ interleave S E ++ if E.getLast? = some size then [] else [size]).length = L
    exact take_alt (2 * (L / 2 + 1)) (L - 1) false true (by omega)

end C08
