import BnpVerif.Props.C08
namespace C08
open Base.Rle

theorem map_range'_const {β : Type} (f : Nat → β) (v : β) (a n : Nat) (h : ∀ p, a ≤ p → p < a + n → f p = v) :
    (List.range' a n).map f = List.replicate n v := by
  rw [← List.length_range' (s := a) (n := n) (step := 1), ← List.map_const']
  simp only [List.length_range']
  apply List.map_congr_left
  intro p hp
  rw [List.mem_range'_1] at hp
  exact h p hp.1 hp.2

theorem denseIv_eq (size : Nat) (K : List Iv) : ∀ c, (∀ iv ∈ K, c ≤ iv.1) → Sep K → (∀ iv ∈ K, iv.2 ≤ size) → c ≤ size →
    denseIv size c K = (List.range' c (size - c)).map (fun p => covered K p) := by
  induction K with
  | nil =>
    intro c _ _ _ _
    simp only [denseIv]
    exact (map_range'_const _ false c (size - c) (fun p _ _ => by simp [covered])).symm
  | cons x K ih =>
    intro c hc hsep hle hcs
    obtain ⟨s, e⟩ := x
    have hse : s < e := hsep.2 (s, e) (by simp)
    have hes : e ≤ size := hle (s, e) (by simp)
    have hcs' : c ≤ s := hc (s, e) (by simp)
    have hgt : ∀ iv ∈ K, e < iv.1 := fun iv hiv => (List.pairwise_cons.1 hsep.1).1 iv hiv
    have ihK := ih e (fun iv hiv => Nat.le_of_lt (hgt iv hiv)) hsep.tail (fun iv hiv => hle iv (by simp [hiv])) hes
    have hsplit : List.range' c (size - c) = List.range' c (s - c) ++ (List.range' s (e - s) ++ List.range' e (size - e)) := by
      have h1 : List.range' s (e - s) ++ List.range' e (size - e) = List.range' s (size - s) := by
        have := List.range'_append_1 (s := s) (m := e - s) (n := size - e)
        rw [show s + (e - s) = e by omega, show e - s + (size - e) = size - s by omega] at this
        exact this
      have := List.range'_append_1 (s := c) (m := s - c) (n := size - s)
      rw [show c + (s - c) = s by omega, show s - c + (size - s) = size - c by omega] at this
      rw [h1, this]
    rw [hsplit, List.map_append, List.map_append, denseIv, ihK, List.append_assoc]
    have hK_false : ∀ p, p < e → covered K p = false := by
      intro p hp
      cases h : covered K p with
      | false => rfl
      | true =>
        obtain ⟨iv, hiv, h1, _⟩ := (covered_iff K p).1 h
        have := hgt iv hiv
        omega
    congr 1
    · exact (map_range'_const _ false c (s - c) (fun p h1 h2 => by
        cases h : covered ((s, e) :: K) p with
        | false => rfl
        | true =>
          rcases (covered_cons _ _ _).1 h with h3 | h3
          · simp only at h3; omega
          · rw [hK_false p (by omega)] at h3; cases h3)).symm
    congr 1
    · exact (map_range'_const _ true s (e - s) (fun p h1 h2 => (covered_cons _ _ _).2 (Or.inl ⟨h1, by simp only; omega⟩))).symm
    · apply List.map_congr_left
      intro p hp
      rw [List.mem_range'_1] at hp
      cases h : covered K p with
      | true => exact ((covered_cons _ _ _).2 (Or.inr h)).symm
      | false =>
        cases h2 : covered ((s, e) :: K) p with
        | false => rfl
        | true =>
          rcases (covered_cons _ _ _).1 h2 with h3 | h3
          · simp only at h3; omega
          · rw [h] at h3; cases h3

end C08
