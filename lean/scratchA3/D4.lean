import BnpVerif.Props.C08
namespace C08
open Base.Rle

theorem mergeGo_le (d : Nat) (rest : List Iv) : ∀ cs ce, cs ≤ ce → (∀ iv ∈ rest, iv.1 ≤ iv.2) →
    ∀ x ∈ mergeGo d cs ce rest, x.1 ≤ x.2 := by
  induction rest with
  | nil => intro cs ce h _ x hx; simp [mergeGo] at hx; subst hx; exact h
  | cons y rest ih =>
    intro cs ce h hne x hx
    obtain ⟨s, e⟩ := y
    have hse : s ≤ e := hne (s, e) (by simp)
    have hne' : ∀ iv ∈ rest, iv.1 ≤ iv.2 := fun iv hiv => hne iv (by simp [hiv])
    simp only [mergeGo] at hx
    split at hx
    · rcases List.mem_cons.1 hx with rfl | hx
      · exact h
      · exact ih s (max ce e) (by omega) hne' x hx
    · exact ih cs (max ce e) (by omega) hne' x hx

/-! ## Property theorems: merge_intervals -/

/-- `merge_intervals(I, 0)` covers exactly the bases covered by `I` (input sorted by start). -/
theorem merge_cover (I : List Iv) (hs : SortedByStart I) (p : Nat) :
    covered (mergeVec 0 I) p = true ↔ 0 < cov I p := by
  rw [mergeVec_eq_mergeRec, cov_pos_iff_covered]
  cases I with
  | nil => simp [mergeRec]
  | cons x rest =>
    obtain ⟨s, e⟩ := x
    simp only [mergeRec]
    rw [mergeGo_cover0 rest s e (fun iv h => (List.pairwise_cons.1 hs).1 iv h) (List.pairwise_cons.1 hs).2 p, covered_cons]

/-- every covered base is inside a merged interval, for every distance -/
theorem merge_superset (d : Nat) (I : List Iv) (hs : SortedByStart I) (p : Nat) (h : 0 < cov I p) :
    covered (mergeVec d I) p = true := by
  rw [mergeVec_eq_mergeRec]
  rw [cov_pos_iff_covered] at h
  cases I with
  | nil => simp [covered] at h
  | cons x rest =>
    obtain ⟨s, e⟩ := x
    simp only [mergeRec]
    exact mergeGo_superset d rest s e (fun iv h => (List.pairwise_cons.1 hs).1 iv h) (List.pairwise_cons.1 hs).2 p
      ((covered_cons _ _ _).1 h)

/-- merged endpoints are input endpoints -/
theorem merge_endpoints (d : Nat) (I : List Iv) : ∀ x ∈ mergeVec d I, x.1 ∈ I.map (·.1) ∧ x.2 ∈ I.map (·.2) := by
  rw [mergeVec_eq_mergeRec]
  cases I with
  | nil => intro x hx; simp [mergeRec] at hx
  | cons y rest =>
    obtain ⟨s, e⟩ := y
    intro x hx
    have := mergeGo_endpoints d rest s e x hx
    simp only [List.map_cons, List.mem_cons]
    exact this

/-- maximality: two different merged intervals are more than `d` apart -/
theorem merge_separated (d : Nat) (I : List Iv) (hs : SortedByStart I) :
    (mergeVec d I).Pairwise (fun a b => a.2 + d < b.1) := by
  rw [mergeVec_eq_mergeRec]
  cases I with
  | nil => simp [mergeRec]
  | cons y rest =>
    obtain ⟨s, e⟩ := y
    exact mergeGo_separated d rest s e (fun iv h => (List.pairwise_cons.1 hs).1 iv h) (List.pairwise_cons.1 hs).2

/-- merged intervals are non-empty and begin and end on covered bases -/
theorem merge_tight (d : Nat) (I : List Iv) (hne : ∀ iv ∈ I, iv.1 < iv.2) :
    ∀ x ∈ mergeVec d I, x.1 < x.2 ∧ 0 < cov I x.1 ∧ 0 < cov I (x.2 - 1) := by
  intro x hx
  have hend := merge_endpoints d I x hx
  obtain ⟨a, ha, ha1⟩ := List.mem_map.1 hend.1
  obtain ⟨b, hb, hb2⟩ := List.mem_map.1 hend.2
  refine ⟨?_, ?_, ?_⟩
  · rw [mergeVec_eq_mergeRec] at hx
    cases I with
    | nil => simp [mergeRec] at hx
    | cons y rest =>
      obtain ⟨s, e⟩ := y
      exact mergeGo_nonempty d rest s e (hne (s, e) (by simp)) (fun iv hiv => hne iv (by simp [hiv])) x hx
  · exact (cov_pos_iff I x.1).2 ⟨a, ha, by omega, by have := hne a ha; omega⟩
  · exact (cov_pos_iff I (x.2 - 1)).2 ⟨b, hb, by have := hne b hb; omega, by have := hne b hb; omega⟩

/-- only gaps of at most `d` uncovered bases are bridged: inside a merged interval every base has a
covered base at distance ≤ d to its right -/
theorem merge_bridged (d : Nat) (I : List Iv) (hne : ∀ iv ∈ I, iv.1 < iv.2) :
    ∀ x ∈ mergeVec d I, ∀ p, x.1 ≤ p → p < x.2 → ∃ q, p ≤ q ∧ q ≤ p + d ∧ 0 < cov I q := by
  rw [mergeVec_eq_mergeRec]
  cases I with
  | nil => intro x hx; simp [mergeRec] at hx
  | cons y rest =>
    obtain ⟨s, e⟩ := y
    intro x hx
    refine mergeGo_bridged d (fun q => 0 < cov ((s, e) :: rest) q) rest s e ?_ ?_ x hx
    · intro iv hiv
      refine ⟨hne iv (by simp [hiv]), fun q h1 h2 => (cov_pos_iff _ q).2 ⟨iv, by simp [hiv], h1, h2⟩⟩
    · intro p h1 h2
      exact ⟨p, Nat.le_refl _, by omega, (cov_pos_iff _ p).2 ⟨(s, e), by simp, h1, h2⟩⟩

/-- the merged intervals come out in strictly increasing order -/
theorem merge_sorted (d : Nat) (I : List Iv) (hs : SortedByStart I) (hne : ∀ iv ∈ I, iv.1 < iv.2) :
    (mergeVec d I).Pairwise (fun a b => a.1 < b.1) := by
  have h1 := merge_separated d I hs
  have h2 := merge_tight d I hne
  refine List.Pairwise.imp_of_mem ?_ h1
  intro a b ha _ hab
  have := (h2 a ha).1
  omega

/-! ## Property theorems: get_boolean_mask -/

theorem startLe_total (a b : Iv) : startLe a b = true ∨ startLe b a = true := by
  simp only [startLe, decide_eq_true_eq]; omega

theorem startLe_trans (a b c : Iv) : startLe a b = true → startLe b c = true → startLe a c = true := by
  simp only [startLe, decide_eq_true_eq]; omega

theorem isort_startLe_sorted (I : List Iv) : SortedByStart (isort startLe I) :=
  (isort_pairwise startLe startLe_total startLe_trans I).imp (by simp [startLe])

theorem covered_perm {I J : List Iv} (h : I.Perm J) (p : Nat) : covered I p = covered J p := by
  have : covered I p = true ↔ covered J p = true := by
    rw [covered_iff, covered_iff]
    constructor
    · rintro ⟨iv, hiv, h1⟩; exact ⟨iv, h.mem_iff.1 hiv, h1⟩
    · rintro ⟨iv, hiv, h1⟩; exact ⟨iv, h.mem_iff.2 hiv, h1⟩
  cases h1 : covered I p <;> cases h2 : covered J p <;> simp_all

theorem covered_filter_nonempty (K : List Iv) (p : Nat) :
    covered (K.filter (fun iv => iv.1 != iv.2)) p = covered K p := by
  induction K with
  | nil => rfl
  | cons x K ih =>
    simp only [List.filter_cons]
    split
    · simp only [covered, List.any_cons] at ih ⊢; rw [ih]
    · rename_i h
      simp only [covered, List.any_cons] at ih ⊢
      rw [ih]
      have : inIv p x = false := by
        simp only [bne_iff_ne, ne_eq, Decidable.not_not] at h
        simp only [inIv, h]
        cases h1 : decide (x.2 ≤ p) <;> cases h2 : decide (p < x.2) <;> simp_all
        omega
      simp [this]

/-- `get_boolean_mask`: the run-length array the code builds is well formed and its xor-accumulate
expansion is `cov > 0` at every base — for every multiset of intervals inside the contig (any order,
nested, duplicated, touching, empty intervals, reaching 0 or `size`). -/
theorem mask_dense (I : List Iv) (size : Nat) (hsz : 0 < size) (hI : ∀ iv ∈ I, iv.1 ≤ iv.2 ∧ iv.2 ≤ size) :
    (mask I size).WF ∧ maskDense I size = specMask I size := by
  have hperm := isort_perm startLe I
  have hsorted := isort_startLe_sorted I
  obtain ⟨J, hJ⟩ : ∃ J, J = isort startLe I := ⟨_, rfl⟩
  rw [← hJ] at hperm hsorted
  have hJle : ∀ iv ∈ J, iv.1 ≤ iv.2 ∧ iv.2 ≤ size := fun iv hiv => hI iv (hperm.mem_iff.1 hiv)
  obtain ⟨K, hK⟩ : ∃ K, K = (mergeVec 0 J).filter (fun iv => iv.1 != iv.2) := ⟨_, rfl⟩
  have hmask : mask I size = fromIntervals (K.map (·.1)) (K.map (·.2)) size true false := by
    simp only [mask, ← hJ, ← hK]
  have hle : ∀ x ∈ mergeVec 0 J, x.1 ≤ x.2 := by
    rw [mergeVec_eq_mergeRec]
    cases J with
    | nil => intro x hx; simp [mergeRec] at hx
    | cons y rest =>
      obtain ⟨s, e⟩ := y
      exact mergeGo_le 0 rest s e (hJle (s, e) (by simp)).1 (fun iv hiv => (hJle iv (by simp [hiv])).1)
  have hsep : Sep K := by
    rw [hK]
    refine ⟨List.Pairwise.filter _ ((merge_separated 0 J hsorted).imp (by intro a b h; omega)), ?_⟩
    intro iv hiv
    have h1 := (List.mem_filter.1 hiv)
    have h2 := hle iv h1.1
    have h3 : iv.1 ≠ iv.2 := by simpa using h1.2
    omega
  have hKle : ∀ iv ∈ K, iv.2 ≤ size := by
    intro iv hiv
    rw [hK] at hiv
    obtain ⟨b, hb, hb2⟩ := List.mem_map.1 (merge_endpoints 0 J iv (List.mem_filter.1 hiv).1).2
    rw [← hb2]
    exact (hJle b hb).2
  have hcov : ∀ p, covered K p = decide (0 < cov I p) := by
    intro p
    rw [hK, covered_filter_nonempty]
    have h1 := merge_cover J hsorted p
    rw [cov_pos_iff_covered, covered_perm hperm] at h1
    have h4 := cov_pos_iff_covered I p
    cases h2 : covered (mergeVec 0 J) p <;> cases h3 : covered I p <;> simp_all
  have hwf := fromIntervals_WF K size hsep hKle hsz
  refine ⟨hmask ▸ hwf, ?_⟩
  simp only [maskDense, hmask]
  rw [toArray_dense xor false (by simp) (by intro a b; cases a <;> cases b <;> rfl) _ hwf]
  rw [fromIntervals_dense, denseIv_eq size K 0 (fun _ _ => Nat.zero_le _) hsep hKle (Nat.zero_le _)]
  simp only [specMask, Nat.sub_zero, List.range_eq_range']
  exact List.map_congr_left (fun p _ => hcov p)

end C08
