import BnpVerif.Props.C09
namespace C09
open Base.Rle

/-! ## expression trees: evaluation on run-length arrays = the same tree on dense arrays -/

def GArr.dense (g : GArr) : List Int × Bool := (g.rle.toDense, g.isBool)

/-- **tree homomorphism** (int64 / bool genomic arrays): for every expression tree over
{+, −, *, <, >, ==, &, |, ~, unary −, scalars on either side} and well-formed leaves, evaluating the tree on the
run-length arrays succeeds exactly when the dense evaluation is well typed, gives a well-formed array of the same
boolean-ness, and its dense meaning is the dense evaluation -/
theorem eval_homomorphism (leaves : List GArr) (hl : ∀ g ∈ leaves, g.rle.WF) (e : Expr) :
    (e.eval leaves).map GArr.dense = e.denote (leaves.map GArr.dense) ∧
    ∀ g, e.eval leaves = some g → g.rle.WF := by
  induction e with
  | leaf i =>
    constructor
    · simp only [Expr.eval, Expr.denote, List.getElem?_map]
    · intro g hg
      simp only [Expr.eval] at hg
      exact hl g (List.mem_of_getElem? hg)
  | un f a ih =>
    obtain ⟨ih1, ih2⟩ := ih
    simp only [Expr.eval, Expr.denote]
    rw [← ih1]
    cases ha : a.eval leaves with
    | none => simp
    | some x =>
      have hx := ih2 x ha
      cases ht : f.typ x.isBool with
      | none => simp [GArr.dense, ht]
      | some t =>
        constructor
        · simp [GArr.dense, ht, mapRle_dense]
        · intro g hg
          simp only [Option.map_some, GArr.dense, ht, Option.bind_eq_bind, Option.bind_some, Option.pure_def,
            Option.some.injEq] at hg
          rw [← hg]; exact mapRle_WF _ _ hx
  | bin f a b iha ihb =>
    obtain ⟨ia1, ia2⟩ := iha
    obtain ⟨ib1, ib2⟩ := ihb
    simp only [Expr.eval, Expr.denote]
    rw [← ia1, ← ib1]
    cases ha : a.eval leaves with
    | none => simp
    | some x =>
      cases hb : b.eval leaves with
      | none => simp
      | some y =>
        have hx := ia2 x ha
        have hy := ib2 y hb
        have hh := ufunc_homomorphism f.fn x.rle y.rle hx hy
        cases ht : f.typ x.isBool y.isBool with
        | none => simp [GArr.dense, ht]
        | some t =>
          constructor
          · simp [GArr.dense, ht, hh.2]
          · intro g hg
            simp only [Option.map_some, GArr.dense, ht, Option.bind_eq_bind, Option.bind_some, Option.pure_def,
              Option.some.injEq] at hg
            rw [← hg]; exact hh.1
  | scr f a k ih =>
    obtain ⟨ih1, ih2⟩ := ih
    simp only [Expr.eval, Expr.denote]
    rw [← ih1]
    cases ha : a.eval leaves with
    | none => simp
    | some x =>
      have hx := ih2 x ha
      cases ht : f.typ x.isBool false with
      | none => simp [GArr.dense, ht]
      | some t =>
        constructor
        · simp [GArr.dense, ht, mapRle_dense]
        · intro g hg
          simp only [Option.map_some, GArr.dense, ht, Option.bind_eq_bind, Option.bind_some, Option.pure_def,
            Option.some.injEq] at hg
          rw [← hg]; exact mapRle_WF _ _ hx
  | scl f k a ih =>
    obtain ⟨ih1, ih2⟩ := ih
    simp only [Expr.eval, Expr.denote]
    rw [← ih1]
    cases ha : a.eval leaves with
    | none => simp
    | some x =>
      have hx := ih2 x ha
      cases ht : f.typ false x.isBool with
      | none => simp [GArr.dense, ht]
      | some t =>
        constructor
        · simp [GArr.dense, ht, mapRle_dense]
        · intro g hg
          simp only [Option.map_some, GArr.dense, ht, Option.bind_eq_bind, Option.bind_some, Option.pure_def,
            Option.some.injEq] at hg
          rw [← hg]; exact mapRle_WF _ _ hx

/-- on boolean arrays (values 0 / 1) the model's `&`, `|`, `~` are NumPy's: logical and bitwise meaning coincide -/
theorem bool_ops_on_bits : ∀ x ∈ [(0 : Int), 1], ∀ y ∈ [(0 : Int), 1],
    BinOp.and.fn x y = (if x = 1 ∧ y = 1 then 1 else 0) ∧ BinOp.or.fn x y = (if x = 1 ∨ y = 1 then 1 else 0) ∧
    UnOp.not.fn x = 1 - x := by decide

example : (Expr.bin .and (.scr .gt (.leaf 0) 1) (.un .not (.leaf 1))).eval
    [⟨⟨[0, 2, 5], [1, 3]⟩, false⟩, ⟨⟨[0, 4, 5], [1, 0]⟩, true⟩] ≠ none := by decide

end C09
