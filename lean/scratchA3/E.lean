import BnpVerif.Props.C08
namespace C08
open Base.Rle

/-! ## Property theorems: contingency table, unique_intersect -/

theorem countBoth_map (f g : Nat → Bool) (l : List Nat) (bx bY : Bool) :
    countBoth (l.map f) (l.map g) bx bY = l.countP (fun p => f p == bx && g p == bY) := by
  simp only [countBoth, List.zip_map', List.countP_map]
  rfl

/-- the Jaccard/Forbes contingency table is the table of per-base counts -/
theorem contingency_spec (A B : List Iv) (size : Nat) (hsz : 0 < size)
    (hA : ∀ iv ∈ A, iv.1 ≤ iv.2 ∧ iv.2 ≤ size) (hB : ∀ iv ∈ B, iv.1 ≤ iv.2 ∧ iv.2 ≤ size) :
    contingency A B size = specContingency A B size := by
  simp only [contingency, specContingency, (mask_dense A size hsz hA).2, (mask_dense B size hsz hB).2, specMask,
    countBoth_map]

theorem any_drop_take_map (f : Nat → Bool) (size s e : Nat) (he : e ≤ size) :
    ((((List.range size).map f).drop s).take (e - s)).any id =
      (List.range e).any (fun p => decide (s ≤ p) && f p) := by
  rw [← List.map_drop, ← List.map_take, List.range_eq_range', List.drop_range',
    List.take_range'_of_length_ge (by omega), List.any_map]
  have key : ((List.range' (0 + s * 1) (e - s)).any (id ∘ f) = true) ↔
      ((List.range e).any (fun p => decide (s ≤ p) && f p) = true) := by
    simp only [List.any_eq_true, List.mem_range'_1, List.mem_range, Function.comp, id, Bool.and_eq_true,
      decide_eq_true_eq]
    constructor
    · rintro ⟨p, ⟨h1, h2⟩, h3⟩; exact ⟨p, by omega, by omega, h3⟩
    · rintro ⟨p, h1, h2, h3⟩; exact ⟨p, ⟨by omega, by omega⟩, h3⟩
  exact Bool.eq_iff_iff.2 key

/-- `unique_intersect` keeps exactly the entries of `A` that contain a base covered by `B` -/
theorem uniqueIntersect_spec (A B : List Iv) (size : Nat) (hsz : 0 < size)
    (hA : ∀ iv ∈ A, iv.2 ≤ size) (hB : ∀ iv ∈ B, iv.1 ≤ iv.2 ∧ iv.2 ≤ size) :
    uniqueIntersect A B size = specUniqueIntersect A B := by
  simp only [uniqueIntersect, specUniqueIntersect, (mask_dense B size hsz hB).2, specMask]
  apply List.filter_congr
  intro iv hiv
  exact any_drop_take_map _ size iv.1 iv.2 (hA iv hiv)

/-! ## Property theorems: sort_intervals -/

theorem lex3_total (a b : Rec) : lex3 a b = true ∨ lex3 b a = true := by
  simp only [lex3, Bool.or_eq_true, Bool.and_eq_true, decide_eq_true_eq, beq_iff_eq]; omega

theorem lex3_trans (a b c : Rec) : lex3 a b = true → lex3 b c = true → lex3 a c = true := by
  simp only [lex3, Bool.or_eq_true, Bool.and_eq_true, decide_eq_true_eq, beq_iff_eq]; omega

/-- `sort_intervals` returns a permutation of its input ordered by (chromosome key, start, stop) -/
theorem sort_perm_sorted (xs : List Rec) :
    (sortIntervals xs).Perm xs ∧ (sortIntervals xs).Pairwise (fun a b => lex3 a b = true) :=
  ⟨isort_perm lex3 xs, isort_pairwise lex3 lex3_total lex3_trans xs⟩

/-- `lex3` is the lexicographic order on (chromosome, start, stop) -/
theorem lex3_iff (a b : Rec) : lex3 a b = true ↔
    a.1 < b.1 ∨ (a.1 = b.1 ∧ (a.2.1 < b.2.1 ∨ (a.2.1 = b.2.1 ∧ a.2.2 ≤ b.2.2))) := by
  simp only [lex3, Bool.or_eq_true, Bool.and_eq_true, decide_eq_true_eq, beq_iff_eq]

/-- the rule shipped before the fix (`np.lexsort((start, chromosome))`) is not ordered by stop -/
theorem sortOld_unsound : ¬ (sortIntervalsOld [(0, 0, 3), (0, 0, 2)]).Pairwise (fun a b => lex3 a b = true) := by
  decide

/-! ## Property theorems: clip / extend_to_size kernels (traced from the source into Gen/C08.lean) -/

/-- the hand model used by the driver is the traced code -/
theorem kernels_traced (fwd : Bool) (start stop len size : Int) :
    clipK start stop size = (Gen.C08.clipStart start stop size, Gen.C08.clipStop start stop size) ∧
    clipK start stop size = (Gen.C08.geoClipStart start stop size, Gen.C08.geoClipStop start stop size) ∧
    extendK fwd start stop len size = (Gen.C08.extStart fwd start stop len size, Gen.C08.extStop fwd start stop len size) ∧
    extendK fwd start stop len size = (Gen.C08.geoExtStart fwd start stop len size, Gen.C08.geoExtStop fwd start stop len size) := by
  simp only [clipK, extendK, Gen.C08.clipStart, Gen.C08.clipStop, Gen.C08.geoClipStart, Gen.C08.geoClipStop,
    Gen.C08.extStart, Gen.C08.extStop, Gen.C08.geoExtStart, Gen.C08.geoExtStop]
  cases fwd <;> simp

/-- clipping is intersection with the contig: a base is in the clipped interval iff it is in the interval and in `[0, size)` -/
theorem clip_perbase (start stop size p : Int) :
    (Gen.C08.clipStart start stop size ≤ p ∧ p < Gen.C08.clipStop start stop size) ↔
      (start ≤ p ∧ p < stop) ∧ (0 ≤ p ∧ p < size) := by
  simp only [Gen.C08.clipStart, Gen.C08.clipStop]; omega

/-- an interval that meets the contig stays a well-formed interval inside it -/
theorem clip_inside (start stop size : Int) (h0 : 0 ≤ size) (h1 : start ≤ stop) (h2 : start ≤ size) (h3 : 0 ≤ stop) :
    0 ≤ Gen.C08.clipStart start stop size ∧ Gen.C08.clipStart start stop size ≤ Gen.C08.clipStop start stop size ∧
      Gen.C08.clipStop start stop size ≤ size := by
  simp only [Gen.C08.clipStart, Gen.C08.clipStop]; omega

/-- extension keeps the interval inside the contig -/
theorem extend_inside (fwd : Bool) (start stop len size : Int) (h1 : 0 ≤ start) (h2 : start ≤ stop) (h3 : stop ≤ size)
    (h4 : 0 ≤ len) :
    0 ≤ Gen.C08.extStart fwd start stop len size ∧
      Gen.C08.extStart fwd start stop len size ≤ Gen.C08.extStop fwd start stop len size ∧
      Gen.C08.extStop fwd start stop len size ≤ size := by
  simp only [Gen.C08.extStart, Gen.C08.extStop]
  cases fwd
  · simp only [Bool.false_eq_true, ↓reduceIte]; omega
  · simp only [↓reduceIte]; omega

/-- `+` keeps the start, `-` keeps the stop -/
theorem extend_keeps (start stop len size : Int) :
    Gen.C08.extStart true start stop len size = start ∧ Gen.C08.extStop false start stop len size = stop := by
  simp [Gen.C08.extStart, Gen.C08.extStop]

/-- the extended interval has the requested length, cut at the contig boundary -/
theorem extend_length (start stop len size : Int) (h1 : 0 ≤ start) (h2 : start ≤ stop) (h3 : stop ≤ size) (h4 : 0 ≤ len) :
    Gen.C08.extStop true start stop len size - Gen.C08.extStart true start stop len size = min len (size - start) ∧
    Gen.C08.extStop false start stop len size - Gen.C08.extStart false start stop len size = min len stop := by
  simp only [Gen.C08.extStart, Gen.C08.extStop, Bool.false_eq_true, ↓reduceIte]; omega

/-- the same for the kernels of `Geometry.clip` / `Geometry.extend_to_size` (size looked up per row) -/
theorem geo_kernels_inside (fwd : Bool) (start stop len size : Int) (h1 : 0 ≤ start) (h2 : start ≤ stop) (h3 : stop ≤ size)
    (h4 : 0 ≤ len) :
    (0 ≤ Gen.C08.geoExtStart fwd start stop len size ∧
      Gen.C08.geoExtStart fwd start stop len size ≤ Gen.C08.geoExtStop fwd start stop len size ∧
      Gen.C08.geoExtStop fwd start stop len size ≤ size) ∧
    (0 ≤ Gen.C08.geoClipStart start stop size ∧ Gen.C08.geoClipStart start stop size ≤ Gen.C08.geoClipStop start stop size ∧
      Gen.C08.geoClipStop start stop size ≤ size) := by
  simp only [Gen.C08.geoExtStart, Gen.C08.geoExtStop, Gen.C08.geoClipStart, Gen.C08.geoClipStop]
  cases fwd
  · simp only [Bool.false_eq_true, ↓reduceIte]; omega
  · simp only [↓reduceIte]; omega

end C08
