import BnpVerif.Props.C08
namespace C08
open Base.Rle

theorem head?_interleave (K : List Iv) : (interleave (K.map (·.1)) (K.map (·.2))).head? = (K.map (·.1)).head? := by
  cases K with
  | nil => rfl
  | cons x K => simp [interleave]

theorem fromIntervals_events (K : List Iv) (size : Nat) :
    (fromIntervals (K.map (·.1)) (K.map (·.2)) size true false).events =
      (if (K.map (·.1)).head? = some 0 then [] else [0]) ++ interleave (K.map (·.1)) (K.map (·.2)) ++
      (if (K.map (·.2)).getLast? = some size then [] else [size]) := rfl

theorem starts_pos (K : List Iv) (hsep : Sep K) (h0 : (K.map (·.1)).head? ≠ some 0) : ∀ iv ∈ K, 0 < iv.1 := by
  cases K with
  | nil => intro iv h; simp at h
  | cons x K =>
    intro iv hiv
    have hx : 0 < x.1 := by
      simp only [List.map_cons, List.head?_cons, ne_eq, Option.some.injEq] at h0
      omega
    rcases List.mem_cons.1 hiv with rfl | hiv
    · exact hx
    · have := (List.pairwise_cons.1 hsep.1).1 iv hiv
      omega

theorem fromIntervals_WF (K : List Iv) (size : Nat) (hsep : Sep K) (hle : ∀ iv ∈ K, iv.2 ≤ size) (hsz : 0 < size) :
    (fromIntervals (K.map (·.1)) (K.map (·.2)) size true false).WF := by
  have hval := fromIntervals_values K size
  simp only at hval
  have hev := fromIntervals_events K size
  generalize fromIntervals (K.map (·.1)) (K.map (·.2)) size true false = r at hval hev
  obtain ⟨events, values⟩ := r
  simp only at hval hev
  have hpost : ∀ x ∈ (if (K.map (·.2)).getLast? = some size then [] else [size]), ∀ iv ∈ K, iv.2 < x := by
    intro x hx iv hiv
    split at hx
    · simp at hx
    · rename_i hl
      simp only [List.mem_singleton] at hx
      subst hx
      exact ends_lt_size x K hsep hle hl iv hiv
  have hpw : (interleave (K.map (·.1)) (K.map (·.2)) ++
      (if (K.map (·.2)).getLast? = some size then [] else [size])).Pairwise (· < ·) :=
    events_pairwise K hsep _ hpost (by split <;> simp)
  have hne : 1 ≤ events.length := by
    rw [hev]
    cases K with
    | nil => simp
    | cons x K => simp [interleave]; omega
  refine ⟨?_, ?_, ?_⟩
  · simp only
    rw [hval]
    split <;> simp [alt_length] <;> omega
  · simp only
    rw [hev]
    by_cases h0 : (K.map (·.1)).head? = some 0
    · rw [if_pos h0, List.nil_append, List.head?_append]
      rw [head?_interleave, h0]
      rfl
    · rw [if_neg h0]; rfl
  · simp only
    rw [hev, List.append_assoc]
    by_cases h0 : (K.map (·.1)).head? = some 0
    · rw [if_pos h0, List.nil_append]; exact hpw
    · rw [if_neg h0]
      refine List.pairwise_append.2 ⟨by simp, hpw, ?_⟩
      intro a ha b hb
      simp only [List.mem_singleton] at ha
      subst ha
      rcases List.mem_append.1 hb with hb | hb
      · rcases mem_interleave _ _ b hb with h | h
        · obtain ⟨iv, hiv, rfl⟩ := List.mem_map.1 h
          exact starts_pos K hsep h0 iv hiv
        · obtain ⟨iv, hiv, rfl⟩ := List.mem_map.1 h
          have := hsep.2 iv hiv
          omega
      · split at hb
        · simp at hb
        · simp only [List.mem_singleton] at hb
          omega

theorem fromIntervals_dense (K : List Iv) (size : Nat) :
    (fromIntervals (K.map (·.1)) (K.map (·.2)) size true false).toDense = denseIv size 0 K := by
  have hval := fromIntervals_values K size
  simp only at hval
  have hev := fromIntervals_events K size
  generalize fromIntervals (K.map (·.1)) (K.map (·.2)) size true false = r at hval hev
  obtain ⟨events, values⟩ := r
  simp only at hval hev
  simp only [Rle.toDense]
  have hG := runs_alt size K 0 (if (K.map (·.2)).getLast? = some size then [] else [size]) (by
    split
    · rename_i h
      right
      refine ⟨rfl, ?_⟩
      rw [lastEnd_eq, h]; rfl
    · left; rfl)
  generalize (if (K.map (·.2)).getLast? = some size then [] else [size]) = post at hev hG
  rw [← hG, hval, hev]
  by_cases h0 : (K.map (·.1)).head? = some 0
  · simp only [if_pos h0, List.nil_append]
    cases K with
    | nil => simp at h0
    | cons x K =>
      obtain ⟨s, e⟩ := x
      simp only [List.map_cons, List.head?_cons, Option.some.injEq] at h0
      subst h0
      have e1 : (interleave (List.map (fun x : Iv => x.1) ((0, e) :: K)) (List.map (fun x : Iv => x.2) ((0, e) :: K)) ++ post).length - 1
          = (2 * K.length + post.length) + 1 := by
        simp only [List.length_append, interleave_length, List.length_cons]; omega
      have e2 : 2 * ((0, e) :: K).length + post.length = (2 * K.length + post.length) + 1 + 1 := by
        simp only [List.length_cons]; omega
      rw [e1, e2]
      simp [interleave, alt, runs]
  · simp only [if_neg h0]
    have e1 : ([0] ++ interleave (List.map (fun x : Iv => x.1) K) (List.map (fun x : Iv => x.2) K) ++ post).length - 1 =
        2 * K.length + post.length := by
      simp only [List.length_append, interleave_length, List.length_cons, List.length_nil]; omega
    rw [e1]
    simp

end C08
