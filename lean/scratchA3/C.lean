import BnpVerif.Props.C08Core
namespace C08
open Base.Rle

theorem scan_uncovered (I : List Iv) (d : Nat) (ps : List Nat) (st : Option Iv) (rest : List Nat)
    (h : ∀ p ∈ ps, ¬ 0 < cov I p) : specMergeGo I d (ps ++ rest) st = specMergeGo I d rest st := by
  induction ps generalizing st with
  | nil => rfl
  | cons p ps ih =>
    have hp := h p (by simp)
    have ih' := fun st => ih st (fun q hq => h q (by simp [hq]))
    cases st with
    | none => simp only [List.cons_append, specMergeGo, if_neg hp]; exact ih' none
    | some r => obtain ⟨s, e⟩ := r; simp only [List.cons_append, specMergeGo, if_neg hp]; exact ih' (some (s, e))

/-- a covered stretch directly after the current run end just extends the run -/
theorem scan_extend (I : List Iv) (d : Nat) (rest : List Nat) (x : Nat) : ∀ (n p : Nat),
    (∀ q, p ≤ q → q < p + n → 0 < cov I q) →
    specMergeGo I d (List.range' p n ++ rest) (some (x, p)) = specMergeGo I d rest (some (x, p + n)) := by
  intro n
  induction n with
  | zero => intro p _; rfl
  | succ n ih =>
    intro p h
    have hp : 0 < cov I p := h p (Nat.le_refl _) (by omega)
    rw [List.range'_succ, List.cons_append]
    simp only [specMergeGo, if_pos hp]
    rw [if_pos (by omega), ih (p + 1) (fun q h1 h2 => h q (by omega) (by omega))]
    congr 3; omega

/-- scanning the bases from `c` on over a coverage given by separated runs `M` reproduces `mergeGo` on those runs -/
theorem scan_runs (I : List Iv) (d size : Nat) (M : List Iv) : ∀ (c : Nat) (st : Option Iv),
    M.Pairwise (fun a b => a.2 < b.1) → (∀ a ∈ M, a.1 < a.2 ∧ c ≤ a.1 ∧ a.2 ≤ size) →
    (∀ p, c ≤ p → (0 < cov I p ↔ covered M p = true)) → (∀ r, st = some r → r.2 ≤ c) → c ≤ size →
    specMergeGo I d (List.range' c (size - c)) st =
      (match st with | none => mergeRec d M | some r => mergeGo d r.1 r.2 M) := by
  induction M with
  | nil =>
    intro c st _ _ hcov _ _
    have := scan_uncovered I d (List.range' c (size - c)) st [] (fun p hp => by
      rw [List.mem_range'_1] at hp
      rw [hcov p hp.1]; simp [covered])
    rw [List.append_nil] at this
    rw [this]
    cases st with
    | none => rfl
    | some r => rfl
  | cons a M ih =>
    intro c st hsep hM hcov hst hcs
    obtain ⟨s, e⟩ := a
    obtain ⟨hse, hcs', hes⟩ := hM (s, e) (by simp)
    simp only at hse hcs' hes
    have hgt : ∀ b ∈ M, e < b.1 := fun b hb => (List.pairwise_cons.1 hsep).1 b hb
    have hsplit : List.range' c (size - c) = List.range' c (s - c) ++ (List.range' s (e - s) ++ List.range' e (size - e)) := by
      have h1 := List.range'_append_1 (s := s) (m := e - s) (n := size - e)
      rw [show s + (e - s) = e by omega, show e - s + (size - e) = size - s by omega] at h1
      have h2 := List.range'_append_1 (s := c) (m := s - c) (n := size - s)
      rw [show c + (s - c) = s by omega, show s - c + (size - s) = size - c by omega] at h2
      rw [h1, h2]
    have hunc : ∀ p ∈ List.range' c (s - c), ¬ 0 < cov I p := by
      intro p hp
      rw [List.mem_range'_1] at hp
      rw [hcov p hp.1]
      intro hc
      rcases (covered_cons _ _ _).1 hc with h3 | h3
      · simp only at h3; omega
      · obtain ⟨b, hb, h4, _⟩ := (covered_iff M p).1 h3
        have := hgt b hb; omega
    have hcovrun : ∀ q, s ≤ q → q < e → 0 < cov I q := fun q h1 h2 =>
      (hcov q (by omega)).2 ((covered_cons _ _ _).2 (Or.inl ⟨h1, h2⟩))
    have hcovrest : ∀ p, e ≤ p → (0 < cov I p ↔ covered M p = true) := by
      intro p hp
      rw [hcov p (by omega)]
      constructor
      · intro hc
        rcases (covered_cons _ _ _).1 hc with h3 | h3
        · simp only at h3; omega
        · exact h3
      · exact fun h3 => (covered_cons _ _ _).2 (Or.inr h3)
    have hM' : ∀ b ∈ M, b.1 < b.2 ∧ e ≤ b.1 ∧ b.2 ≤ size := fun b hb =>
      ⟨(hM b (by simp [hb])).1, Nat.le_of_lt (hgt b hb), (hM b (by simp [hb])).2.2⟩
    rw [hsplit, scan_uncovered I d _ st _ hunc]
    -- the run [s, e): its first base decides between bridging and starting a new run
    have hrun : List.range' s (e - s) = s :: List.range' (s + 1) (e - s - 1) := by
      rw [show e - s = (e - s - 1) + 1 by omega, List.range'_succ]; simp
    have hs0 : 0 < cov I s := hcovrun s (Nat.le_refl _) hse
    have hext := fun x => scan_extend I d (List.range' e (size - e)) x (e - s - 1) (s + 1)
      (fun q h1 h2 => hcovrun q (by omega) (by omega))
    rw [show s + 1 + (e - s - 1) = e by omega] at hext
    rw [hrun, List.cons_append]
    cases st with
    | none =>
      simp only [specMergeGo, if_pos hs0]
      rw [hext s, ih e (some (s, e)) (List.pairwise_cons.1 hsep).2 hM' hcovrest (fun r hr => by cases hr; exact Nat.le_refl _) hes]
      rfl
    | some r =>
      obtain ⟨cs, ce⟩ := r
      have hce : ce ≤ c := hst (cs, ce) rfl
      simp only [specMergeGo, if_pos hs0]
      simp only [mergeGo]
      have hmax : max ce e = e := by omega
      by_cases hb : s ≤ ce + d
      · rw [if_pos hb, hext cs, ih e (some (cs, e)) (List.pairwise_cons.1 hsep).2 hM' hcovrest
          (fun r hr => by cases hr; exact Nat.le_refl _) hes]
        rw [if_neg (by omega), hmax]
      · rw [if_neg hb, hext s, ih e (some (s, e)) (List.pairwise_cons.1 hsep).2 hM' hcovrest
          (fun r hr => by cases hr; exact Nat.le_refl _) hes]
        rw [if_pos (by omega), hmax]

/-- **`merge_intervals(I, d)` is the per-base definition**: the maximal runs of covered bases, with uncovered gaps of
at most `d` bases bridged, obtained by scanning the contig base by base (`specMerge`, the oracle the check compares with) -/
theorem merge_eq_spec (d : Nat) (I : List Iv) (size : Nat) (hs : SortedByStart I)
    (hI : ∀ iv ∈ I, iv.1 < iv.2 ∧ iv.2 ≤ size) : mergeVec d I = specMerge I d size := by
  have hne : ∀ iv ∈ I, iv.1 < iv.2 := fun iv h => (hI iv h).1
  have hsep := (merge_separated 0 I hs).imp (fun {a b} h => by omega : ∀ {a b : Iv}, a.2 + 0 < b.1 → a.2 < b.1)
  have hM : ∀ a ∈ mergeVec 0 I, a.1 < a.2 ∧ 0 ≤ a.1 ∧ a.2 ≤ size := by
    intro a ha
    refine ⟨(merge_tight 0 I hne a ha).1, Nat.zero_le _, ?_⟩
    obtain ⟨b, hb, hb2⟩ := List.mem_map.1 (merge_endpoints 0 I a ha).2
    rw [← hb2]; exact (hI b hb).2
  have hscan := scan_runs I d size (mergeVec 0 I) 0 none hsep hM
    (fun p _ => (merge_cover I hs p).symm) (fun r hr => by cases hr) (Nat.zero_le _)
  simp only [specMerge, List.range_eq_range']
  rw [Nat.sub_zero] at hscan
  rw [hscan, mergeVec_eq_mergeRec 0, merge_merge0 d I hs, mergeVec_eq_mergeRec]

/-- outside its domain the code differs from the scan: an empty interval is returned as a run -/
theorem merge_empty_interval_not_spec : mergeVec 0 [(2, 2)] = [(2, 2)] ∧ specMerge [(2, 2)] 0 5 = [] := by decide

example : SortedByStart [(0, 2), (1, 4), (6, 7)] ∧ ∀ iv ∈ [((0 : Nat), (2 : Nat)), (1, 4), (6, 7)], iv.1 < iv.2 ∧ iv.2 ≤ 9 := by
  unfold SortedByStart; decide

end C08
