import BnpVerif.Model.C08
namespace C08
open Base.Rle

/-! ## xor-accumulate expansion equals the dense meaning -/

theorem zipWith_dropLast_left {α β γ : Type} (f : α → β → γ) : ∀ (l : List α) (m : List β), m.length < l.length →
    List.zipWith f l.dropLast m = List.zipWith f l m := by
  intro l
  induction l with
  | nil => intro m h; simp at h
  | cons a l ih =>
    intro m h
    cases l with
    | nil => cases m with
      | nil => rfl
      | cons y m => simp at h
    | cons b l =>
      cases m with
      | nil => simp
      | cons y m =>
        simp only [List.dropLast_cons_cons, List.zipWith_cons_cons]
        rw [ih m (by simpa using h)]

theorem zip_dropLast_left {α β : Type} (l : List α) (m : List β) (h : m.length < l.length) :
    l.dropLast.zip m = l.zip m := by
  simp only [List.zip]
  exact zipWith_dropLast_left _ l m h

theorem set_replicate' {V : Type} (z x : V) : ∀ (m j : Nat), j < m →
    (List.replicate m z).set j x = List.replicate j z ++ x :: List.replicate (m - j - 1) z := by
  intro m
  induction m with
  | zero => intro j h; omega
  | succ m ih =>
    intro j h
    cases j with
    | zero => simp [List.replicate_succ]
    | succ j =>
      simp only [List.replicate_succ, List.set_cons_succ, List.cons_append]
      rw [ih j (by omega)]
      have e : m + 1 - (j + 1) - 1 = m - j - 1 := by omega
      rw [e]

/-- the scattered array written as blocks: zeros, a written value, zeros, … -/
def blk {V : Type} (z : V) (n : Nat) : Nat → List (Nat × V) → List V
  | c, [] => List.replicate (n - c) z
  | c, (i, x) :: ps => List.replicate (i - c) z ++ x :: blk z n (i + 1) ps

theorem scatter_blk {V : Type} (z : V) (n : Nat) (ps : List (Nat × V)) : ∀ (pre : List V) (c : Nat), c = pre.length →
    ps.Pairwise (fun a b => a.1 < b.1) → (∀ p ∈ ps, c ≤ p.1 ∧ p.1 < n) →
    ps.foldl (fun a p => a.set p.1 p.2) (pre ++ List.replicate (n - c) z) = pre ++ blk z n c ps := by
  induction ps with
  | nil => intro pre c _ _ _; simp [blk]
  | cons q ps ih =>
    intro pre c hc hpw hb
    obtain ⟨i, x⟩ := q
    have hi := hb (i, x) (by simp)
    simp only at hi
    simp only [List.foldl_cons, blk]
    rw [List.set_append_right _ _ (by omega), set_replicate' z x (n - c) (i - pre.length) (by omega)]
    have e1 : n - c - (i - pre.length) - 1 = n - (i + 1) := by omega
    have e2 : i - pre.length = i - c := by omega
    rw [e1, e2]
    have := ih (pre ++ List.replicate (i - c) z ++ [x]) (i + 1) (by simp; omega) (List.pairwise_cons.1 hpw).2
      (fun p hp => ⟨(List.pairwise_cons.1 hpw).1 p hp, (hb p (by simp [hp])).2⟩)
    simp only [List.append_assoc, List.singleton_append] at this
    rw [this]

theorem pairwise_zip_fst {α β : Type} (R : α → α → Prop) : ∀ (l : List α) (m : List β), l.Pairwise R →
    (l.zip m).Pairwise (fun a b => R a.1 b.1) := by
  intro l
  induction l with
  | nil => intro m _; simp
  | cons a l ih =>
    intro m h
    cases m with
    | nil => simp
    | cons y m =>
      simp only [List.zip_cons_cons]
      refine List.pairwise_cons.2 ⟨?_, ih m (List.pairwise_cons.1 h).2⟩
      intro p hp
      exact (List.pairwise_cons.1 h).1 p.1 (List.of_mem_zip (a := p.1) (b := p.2) hp).1

theorem lt_getLast_of_mem_dropLast (es : List Nat) (n : Nat) (hpw : es.Pairwise (· < ·)) (hn : es.getLast? = some n) :
    ∀ x ∈ es.dropLast, x < n := by
  intro x hx
  have hne : es ≠ [] := by intro h; simp [h] at hn
  have h1 : es.dropLast ++ [es.getLast hne] = es := List.dropLast_concat_getLast hne
  have h2 : es.getLast hne = n := by
    rw [List.getLast?_eq_some_getLast hne] at hn
    exact Option.some.inj hn
  rw [← h1, h2] at hpw
  exact (List.pairwise_append.1 hpw).2.2 x hx n (by simp)

theorem foldl_set_comm {V : Type} (i : Nat) (x : V) (ps : List (Nat × V)) : ∀ (l : List V), (∀ p ∈ ps, p.1 ≠ i) →
    (ps.foldl (fun a p => a.set p.1 p.2) l).set i x = ps.foldl (fun a p => a.set p.1 p.2) (l.set i x) := by
  induction ps with
  | nil => intro l _; rfl
  | cons q ps ih =>
    intro l h
    simp only [List.foldl_cons]
    rw [ih _ (fun p hp => h p (by simp [hp])), List.set_comm _ _ (h q (by simp))]

theorem accFrom_append {V : Type} (op : V → V → V) : ∀ (A B : List V) (u : V),
    accFrom op u (A ++ B) = accFrom op u A ++ accFrom op (A.foldl op u) B := by
  intro A
  induction A with
  | nil => intro B u; rfl
  | cons a A ih => intro B u; simp [accFrom, ih]

theorem accFrom_replicate {V : Type} (op : V → V → V) (z : V) (hz : ∀ a, op a z = a) (u : V) : ∀ m,
    accFrom op u (List.replicate m z) = List.replicate m u := by
  intro m
  induction m with
  | zero => rfl
  | succ m ih => simp [List.replicate_succ, accFrom, hz, ih]

theorem foldl_replicate {V : Type} (op : V → V → V) (z : V) (hz : ∀ a, op a z = a) (u : V) : ∀ m,
    (List.replicate m z).foldl op u = u := by
  intro m
  induction m with
  | zero => rfl
  | succ m ih => simp [List.replicate_succ, hz, ih]

/-- accumulating over the block form telescopes to the runs -/
theorem acc_blk {V : Type} (op : V → V → V) (z : V) (hz : ∀ a, op a z = a) (hxx : ∀ a b, op a (op a b) = b) (n : Nat)
    (es : List Nat) : ∀ (vs : List V) (c : Nat) (u : V), es.length = vs.length + 1 → (c :: es).Pairwise (· < ·) →
    es.getLast? = some n →
    u :: accFrom op u (blk z n (c + 1) (es.zip (List.zipWith op (u :: vs) vs))) = runs (c :: es) (u :: vs) := by
  induction es with
  | nil => intro vs c u h; simp at h
  | cons e1 es ih =>
    intro vs c u hlen hpw hn
    have hc : c < e1 := (List.pairwise_cons.1 hpw).1 e1 (by simp)
    cases es with
    | nil =>
      have : vs = [] := by cases vs with
        | nil => rfl
        | cons _ _ => simp at hlen
      subst this
      simp only [List.getLast?_singleton, Option.some.injEq] at hn
      subst hn
      simp only [List.zipWith_nil_right, List.zip_nil_right, blk, runs, List.append_nil]
      rw [accFrom_replicate op z hz]
      rw [← List.replicate_succ]
      congr 1
      omega
    | cons e2 es =>
      cases vs with
      | nil => simp at hlen
      | cons v1 vs =>
        simp only [List.zipWith_cons_cons, List.zip_cons_cons, blk]
        rw [accFrom_append, accFrom_replicate op z hz, foldl_replicate op z hz]
        simp only [accFrom, hxx]
        have := ih vs e1 v1 (by simpa using hlen) (List.pairwise_cons.1 hpw).2 (by simpa using hn)
        rw [this]
        rw [runs]
        rw [← List.cons_append, ← List.replicate_succ]
        congr 2
        omega

theorem toArray_dense {V : Type} (op : V → V → V) (z : V) (hz : ∀ a, op a z = a) (hxx : ∀ a b, op a (op a b) = b)
    (r : Rle V) (h : r.WF) : r.toArray op z = r.toDense := by
  obtain ⟨events, values⟩ := r
  obtain ⟨hlen, hhead, hpw⟩ := h
  simp only at hlen hhead hpw
  cases events with
  | nil => simp at hhead
  | cons e0 es =>
    simp only [List.head?_cons, Option.some.injEq] at hhead
    subst hhead
    cases values with
    | nil =>
      have : es = [] := by cases es with
        | nil => rfl
        | cons _ _ => simp at hlen
      subst this
      simp [Rle.toArray, Rle.toDense, Rle.len, runs]
    | cons v0 vs =>
      have hlen' : es.length = vs.length + 1 := by simpa using hlen
      cases es with
      | nil => simp at hlen'
      | cons e1 es =>
        obtain ⟨n, hn⟩ : ∃ n, (e1 :: es).getLast? = some n := by
          cases h : (e1 :: es).getLast? with
          | none => simp at h
          | some n => exact ⟨n, rfl⟩
        have hnpos : 0 < n := by
          have hmem : n ∈ e1 :: es := List.mem_of_getLast? hn
          exact (List.pairwise_cons.1 hpw).1 n hmem
        have hlen_eq : (Rle.len ⟨0 :: e1 :: es, v0 :: vs⟩) = n := by simp [Rle.len, hn]
        simp only [Rle.toArray, Rle.toDense, hlen_eq]
        rw [if_neg (by omega)]
        simp only [List.dropLast_cons_cons, List.tail_cons, scatter]
        have hl2 : es.length = vs.length := by simpa using hlen'
        rw [zipWith_dropLast_left op (v0 :: vs) vs (by simp)]
        have h2 : (e1 :: es).Pairwise (· < ·) := (List.pairwise_cons.1 hpw).2
        have hps_b : ∀ p ∈ (e1 :: es).dropLast.zip (List.zipWith op (v0 :: vs) vs), 1 ≤ p.1 ∧ p.1 < n := by
          intro p hp
          have hm := (List.of_mem_zip (a := p.1) (b := p.2) hp).1
          refine ⟨?_, lt_getLast_of_mem_dropLast _ n h2 hn p.1 hm⟩
          have : 0 < p.1 := (List.pairwise_cons.1 hpw).1 p.1 (List.dropLast_subset _ hm)
          omega
        rw [zip_dropLast_left (e1 :: es) _ (by simp [List.length_zipWith]; omega)] at hps_b ⊢
        have hps_pw : ((e1 :: es).zip (List.zipWith op (v0 :: vs) vs)).Pairwise (fun a b => a.1 < b.1) :=
          pairwise_zip_fst (· < ·) _ _ h2
        rw [foldl_set_comm 0 v0 _ _ (fun p hp => by have := (hps_b p hp).1; omega)]
        have h0 : (List.replicate n z).set 0 v0 = [v0] ++ List.replicate (n - 1) z := by
          rw [set_replicate' z v0 n 0 hnpos]; simp
        rw [h0, scatter_blk z n _ [v0] 1 rfl hps_pw hps_b]
        simp only [List.singleton_append, accumulate]
        exact acc_blk op z hz hxx n (e1 :: es) vs 0 v0 hlen' hpw hn

end C08
