import BnpVerif.Props.C08
namespace C08
open Base.Rle

theorem natLe_total (a b : Nat) : natLe a b = true ∨ natLe b a = true := by
  simp only [natLe, decide_eq_true_eq]; omega

theorem natLe_trans (a b c : Nat) : natLe a b = true → natLe b c = true → natLe a c = true := by
  simp only [natLe, decide_eq_true_eq]; omega

theorem isort_natLe_sorted (l : List Nat) : (isort natLe l).Pairwise (· ≤ ·) :=
  (isort_pairwise natLe natLe_total natLe_trans l).imp (by simp [natLe])

theorem countLe_isort (l : List Nat) (x : Nat) :
    (isort natLe l).countP (fun s => decide (s ≤ x)) = l.countP (fun s => decide (s ≤ x)) :=
  (isort_perm natLe l).countP_eq _

theorem zipWith_dropLast_right {α β γ : Type} (f : α → β → γ) : ∀ (l : List α) (m : List β), l.length < m.length →
    List.zipWith f l m.dropLast = List.zipWith f l m := by
  intro l m
  induction m generalizing l with
  | nil => intro h; simp at h
  | cons b m ih =>
    intro h
    cases m with
    | nil => cases l with
      | nil => rfl
      | cons a l => simp at h
    | cons c m =>
      cases l with
      | nil => simp
      | cons a l =>
        simp only [List.dropLast_cons_cons, List.zipWith_cons_cons]
        rw [ih l (by simpa using h)]

theorem zip_dropLast_right {α β : Type} (l : List α) (m : List β) (h : l.length < m.length) :
    l.zip m.dropLast = l.zip m := by
  simp only [List.zip]; exact zipWith_dropLast_right _ l m h

theorem countLe_sorted_zero (l : List Nat) (h : Nat) (x : Nat) (hs : (h :: l).Pairwise (· ≤ ·)) (hx : x < h) :
    (h :: l).countP (fun s => decide (s ≤ x)) = 0 := by
  apply List.countP_eq_zero.2
  intro y hy
  rcases List.mem_cons.1 hy with rfl | hy
  · simp; omega
  · have := (List.pairwise_cons.1 hs).1 y hy; simp; omega

theorem countLe_sorted_all (l : List Nat) (x : Nat) (hs : l.Pairwise (· ≤ ·)) (hne : l ≠ []) (hx : l.getLast hne ≤ x) :
    l.countP (fun s => decide (s ≤ x)) = l.length := by
  apply List.countP_eq_length.2
  intro y hy
  have h1 : l.dropLast ++ [l.getLast hne] = l := List.dropLast_concat_getLast hne
  rw [← h1] at hs hy
  rcases List.mem_append.1 hy with hy | hy
  · have := (List.pairwise_append.1 hs).2.2 y hy (l.getLast hne) (by simp); simp; omega
  · simp only [List.mem_singleton] at hy; simp; omega

/-- **key identity**: pairing the (i+1)-th smallest start with the i-th smallest stop gives intervals that cover
every base exactly `depth − 1` times (0 where the depth is 0) -/
theorem cov_pairing (I : List Iv) (h : ∀ iv ∈ I, iv.1 ≤ iv.2) (x : Nat) :
    cov ((isort natLe (I.map (·.1))).tail.zip (isort natLe (I.map (·.2)))) x = cov I x - 1 := by
  obtain ⟨st, hst⟩ : ∃ st, st = isort natLe (I.map (·.1)) := ⟨_, rfl⟩
  obtain ⟨sp, hsp⟩ : ∃ sp, sp = isort natLe (I.map (·.2)) := ⟨_, rfl⟩
  rw [← hst, ← hsp]
  have hstS : st.Pairwise (· ≤ ·) := hst ▸ isort_natLe_sorted _
  have hspS : sp.Pairwise (· ≤ ·) := hsp ▸ isort_natLe_sorted _
  have hlen1 : st.length = I.length := by rw [hst, (isort_perm natLe _).length_eq]; simp
  have hlen2 : sp.length = I.length := by rw [hsp, (isort_perm natLe _).length_eq]; simp
  have hS : st.countP (fun s => decide (s ≤ x)) = I.countP (fun iv => decide (iv.1 ≤ x)) := by
    rw [hst, countLe_isort, List.countP_map]; rfl
  have hE : sp.countP (fun s => decide (s ≤ x)) = I.countP (fun iv => decide (iv.2 ≤ x)) := by
    rw [hsp, countLe_isort, List.countP_map]; rfl
  have hdepth := cov_eq_counts' I x h
  rw [← hS, ← hE] at hdepth
  cases hst' : st with
  | nil =>
    have : I = [] := by cases I with
      | nil => rfl
      | cons a I => rw [hst'] at hlen1; simp at hlen1
    subst this; simp [cov]
  | cons s0 st' =>
    have hspne : sp ≠ [] := by
      intro h0; rw [h0] at hlen2; rw [hst'] at hlen1
      simp only [List.length_cons, List.length_nil] at hlen1 hlen2; omega
    have hzip : (s0 :: st').tail.zip sp = st'.zip sp.dropLast := by
      rw [List.tail_cons, zip_dropLast_right st' sp (by rw [hst'] at hlen1; simp at hlen1; omega)]
    rw [hzip]
    have hl : st'.length = sp.dropLast.length := by
      rw [List.length_dropLast]; rw [hst', List.length_cons] at hlen1; omega
    rw [hst'] at hstS hS hdepth
    have hspD : sp.dropLast.Pairwise (· ≤ ·) := List.Pairwise.sublist (List.dropLast_sublist sp) hspS
    rw [cov_sorted_pairs _ x (by rw [List.map_fst_zip (by omega)]; exact (List.pairwise_cons.1 hstS).2)
      (by rw [List.map_snd_zip (by omega)]; exact hspD)]
    have c1 : (st'.zip sp.dropLast).countP (fun z => decide (z.1 ≤ x)) = st'.countP (fun s => decide (s ≤ x)) := by
      have := List.countP_map (p := fun s => decide (s ≤ x)) (f := Prod.fst) (l := st'.zip sp.dropLast)
      rw [List.map_fst_zip (by omega)] at this
      rw [this]; rfl
    have c2 : (st'.zip sp.dropLast).countP (fun z => decide (z.2 ≤ x)) = sp.dropLast.countP (fun s => decide (s ≤ x)) := by
      have := List.countP_map (p := fun s => decide (s ≤ x)) (f := Prod.snd) (l := st'.zip sp.dropLast)
      rw [List.map_snd_zip (by omega)] at this
      rw [this]; rfl
    rw [c1, c2]
    have hsplit : sp.countP (fun s => decide (s ≤ x)) =
        sp.dropLast.countP (fun s => decide (s ≤ x)) + (if sp.getLast hspne ≤ x then 1 else 0) := by
      conv => lhs; rw [← List.dropLast_concat_getLast hspne]
      rw [List.countP_append]; simp [List.countP_cons]
    have hScons : (s0 :: st').countP (fun s => decide (s ≤ x)) =
        st'.countP (fun s => decide (s ≤ x)) + (if s0 ≤ x then 1 else 0) := by
      simp [List.countP_cons]
    have hSle : (s0 :: st').countP (fun s => decide (s ≤ x)) ≤ (s0 :: st').length := List.countP_le_length
    have hn : (s0 :: st').length = sp.length := by rw [hst'] at hlen1; omega
    by_cases h0 : s0 ≤ x
    · by_cases hL : sp.getLast hspne ≤ x
      · have := countLe_sorted_all sp x hspS hspne hL
        rw [if_pos hL] at hsplit; rw [if_pos h0] at hScons
        omega
      · rw [if_neg hL] at hsplit; rw [if_pos h0] at hScons
        omega
    · have hz := countLe_sorted_zero st' s0 x hstS (by omega)
      by_cases hL : sp.getLast hspne ≤ x
      · have := countLe_sorted_all sp x hspS hspne hL
        have : 0 < sp.length := List.length_pos_iff.2 hspne
        rw [if_pos hL] at hsplit
        omega
      · rw [if_neg hL] at hsplit; rw [if_neg h0] at hScons
        omega

end C08
