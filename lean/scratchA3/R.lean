import BnpVerif.Props.C08
namespace C08
open Base.Rle

/-- the exported `get_pileup` is the per-base count, given that the external counting engine is -/
theorem getPileup_dense (ext : List Iv → Nat → List Nat) (hext : ∀ I size, I ≠ [] → ext I size = specPileup I size)
    (I : List Iv) (size : Nat) : getPileup ext I size = specPileup I size := by
  cases I with
  | nil =>
    simp only [getPileup, List.isEmpty_nil, if_true, Rle.toDense, runs, List.append_nil, Nat.sub_zero, specPileup]
    rw [List.range_eq_range']
    exact (map_range'_const _ 0 0 size (fun p _ _ => rfl)).symm
  | cons a I => simp [getPileup, hext]

/-- `Geometry.extend_to_size` on several chromosomes: row `i` of the result stays inside the chromosome of row `i` -/
theorem geoExtend_inside (chromSizes : List Int) (len : Int) (hlen : 0 ≤ len) (rows : List (Nat × Bool × Int × Int))
    (h : ∀ r ∈ rows, 0 ≤ r.2.2.1 ∧ r.2.2.1 ≤ r.2.2.2 ∧ r.2.2.2 ≤ chromSizes.getD r.1 0)
    (i : Nat) (hi : i < rows.length) :
    let o := (geoExtend chromSizes len rows)[i]'(by simpa [geoExtend] using hi)
    0 ≤ o.1 ∧ o.1 ≤ o.2 ∧ o.2 ≤ chromSizes.getD (rows[i]).1 0 := by
  simp only [geoExtend, List.getElem_map]
  have hr := h rows[i] (List.getElem_mem hi)
  have hk := (kernels_traced (rows[i]).2.1 (rows[i]).2.2.1 (rows[i]).2.2.2 len (chromSizes.getD (rows[i]).1 0)).2.2.2
  rw [hk]
  exact (geo_kernels_inside _ _ _ len _ hr.1 hr.2.1 hr.2.2 hlen).1

/-- `Geometry.clip` on several chromosomes: row `i` is clipped to the chromosome of row `i` -/
theorem geoClip_inside (chromSizes : List Int) (rows : List (Nat × Int × Int))
    (h : ∀ r ∈ rows, 0 ≤ chromSizes.getD r.1 0 ∧ r.2.1 ≤ r.2.2 ∧ r.2.1 ≤ chromSizes.getD r.1 0 ∧ 0 ≤ r.2.2)
    (i : Nat) (hi : i < rows.length) :
    let o := (geoClip chromSizes rows)[i]'(by simpa [geoClip] using hi)
    0 ≤ o.1 ∧ o.1 ≤ o.2 ∧ o.2 ≤ chromSizes.getD (rows[i]).1 0 := by
  simp only [geoClip, List.getElem_map]
  have hr := h rows[i] (List.getElem_mem hi)
  have hk := (kernels_traced true (rows[i]).2.1 (rows[i]).2.2 0 (chromSizes.getD (rows[i]).1 0)).2.1
  rw [hk]
  simp only [Gen.C08.geoClipStart, Gen.C08.geoClipStop]
  omega

end C08
