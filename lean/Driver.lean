import BnpVerif.Proto
import BnpVerif.Drv.C06
open Lean

def handle (j : Json) : Except String Json := do
  let p ← Proto.getStr j "p"
  let op ← Proto.getStr j "op"
  match p with
  | "C06" => Drv.C06.handle op j
  | _ => throw s!"unknown property {p}"

partial def loop (h : IO.FS.Stream) (out : IO.FS.Stream) : IO Unit := do
  let line ← h.getLine
  if line.isEmpty then return ()
  let l := line.trimAscii.toString
  if l.isEmpty then loop h out else
  let r : Json := match Json.parse l with
    | .error e => Json.mkObj [("err", Json.str s!"parse: {e}")]
    | .ok j => match handle j with
      | .ok v => v
      | .error e => Json.mkObj [("err", Json.str e)]
  out.putStrLn r.compress
  loop h out

def main : IO Unit := do
  loop (← IO.getStdin) (← IO.getStdout)
