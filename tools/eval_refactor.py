#!/venv/bin/python
"""tools/eval_refactor.py Cxx <src dir containing 1/,2/,3/> : run the quick checks of every property whose anchored files a
behaviour-preserving refactor touches (plus Cxx) on a scratch worktree with the refactor applied; the expected outcome is OK
everywhere. Keeps the refactor as refactors/<Cxx>-r<i>/ (patch.diff, notes.md, meta.json with the outcomes)."""
import json, os, re, shutil, subprocess, sys, time
R = os.path.dirname(os.path.dirname(os.path.abspath(__file__)))
pid, src = sys.argv[1], sys.argv[2]
tag = sys.argv[3] if len(sys.argv) > 3 else "r"
props = [json.loads(l) for l in open(os.path.join(R, "properties.jsonl"))]
for i in sorted(os.listdir(src)):
    d = os.path.join(src, i)
    pf = os.path.join(d, "patch.diff")
    if not os.path.exists(pf):
        continue
    files = set(re.findall(r"^\+\+\+ b/(\S+)", open(pf).read(), re.M))
    rel = sorted({pid} | {p["id"] for p in props if files & set(p["anchors"]["files"])})
    dst = os.path.join(R, "refactors", f"{pid}-{tag}{i}")
    os.makedirs(dst, exist_ok=True)
    for f in ("patch.diff", "notes.md"):
        if os.path.exists(os.path.join(d, f)):
            shutil.copy(os.path.join(d, f), os.path.join(dst, f))
    t = time.time()
    r = subprocess.run([os.path.join(R, "tools", "run_seeded.sh"), pf, "quick"] + rel, capture_output=True, text=True)
    res = {}
    for q in rel:
        line = [l for l in r.stdout.splitlines() if l.startswith(f"[{q} ")]
        line = line[-1] if line else r.stdout[-200:]
        res[q] = "VIOLATION" + (" no-failing-input-found" if "no-failing-input-found" in line else "") if "VIOLATION" in line else ("OK" if " OK property=" in line else "error: " + line[-160:])
    meta = {"id": f"{pid}-{tag}{i}", "written_for": pid, "files": sorted(files), "author": "independent sub-agent asked for behaviour-preserving refactors, given only the property text",
            "quick_checks": res, "wall_s": round(time.time() - t),
            "evaluated_at_verif_commit": subprocess.run(["git", "-C", R, "log", "--format=%h", "-1"], capture_output=True, text=True).stdout.strip(),
            "repo_head": subprocess.run(["git", "-C", "/repo", "log", "--format=%h", "-1"], capture_output=True, text=True).stdout.strip()}
    json.dump(meta, open(os.path.join(dst, "meta.json"), "w"), indent=1)
    print(f"{pid}-{tag}{i}", sorted(files), res, flush=True)
