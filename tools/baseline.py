#!/venv/bin/python
"""Run /repo's pinned test suite (guard OFF) and compare with /root/.vp/BASELINE.json stable_pass."""
import json, os, subprocess, sys, tempfile, xml.etree.ElementTree as ET
base = json.load(open("/root/.vp/BASELINE.json"))
env = dict(os.environ); env.pop("BIONUMPY_BIONUMPY_VERIF", None)
import fcntl
_lk = open("/tmp/.bnp_baseline.lock", "w"); fcntl.flock(_lk, fcntl.LOCK_EX)  # one test run at a time (tests write files in /repo)
with tempfile.TemporaryDirectory() as d:
    x = os.path.join(d, "j.xml")
    subprocess.run(["/venv/bin/python", "-m", "pytest", "-ra", "-q", "-p", "no:cacheprovider", "--timeout=900",
                    "--continue-on-collection-errors", f"--junitxml={x}"], cwd="/repo", env=env,
                   stdout=subprocess.DEVNULL, stderr=subprocess.DEVNULL)
    passed = set()
    for tc in ET.parse(x).getroot().iter("testcase"):
        if not any(ch.tag in ("failure", "error", "skipped") for ch in tc):
            passed.add(f"{tc.get('classname')}::{tc.get('name')}")
missing = [t for t in base["stable_pass"] if t not in passed]
print(f"passed={len(passed)} stable_pass={len(base['stable_pass'])} missing={len(missing)}")
for m in missing: print("  MISSING", m)
sys.exit(1 if missing else 0)
