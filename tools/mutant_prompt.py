#!/usr/bin/env python3
"""print the prompt for an independent breaking-change author for property Cxx (only the property text is given)"""
import json, sys
pid = sys.argv[1]
p = [json.loads(l) for l in open('/verif/properties.jsonl') if json.loads(l)['id'] == pid][0]
wt = f"/tmp/mut-{pid}/wt"
print(f"""You are testing how robust a Python library's behaviour is against subtle regressions. The library is BioNumPy (NumPy-vectorised parsing/writing of bioinformatics formats and genomic interval arithmetic). You work ONLY inside your own scratch git worktree of the repository; create it first with:

    mkdir -p /tmp/mut-{pid} && git -C /repo worktree add --detach {wt} HEAD

Use `/venv/bin/python` as interpreter and ALWAYS run from inside `{wt}` (e.g. `cd {wt} && /venv/bin/python -m pytest -q -p no:cacheprovider -x`) so that `import bionumpy` picks up your worktree copy — verify once with `cd {wt} && /venv/bin/python -c "import bionumpy; print(bionumpy.__file__)"` (must print a path under {wt}). Never touch /repo itself or /verif, and do not read anything under /verif.

Here is a semantic property that the library is supposed to satisfy:

  TITLE: {p['title']}
  STATEMENT: {p['statement']}
  QUANTIFIED OVER: {p['quantifier']['text']}
  Relevant source files: {', '.join(p['anchors']['files'])}

YOUR TASK: produce THREE different, realistic code changes to the library (each a small edit of the kind a developer could plausibly make in a refactor, optimisation or bug-fix attempt) such that, for each change separately:
  1. the package still imports and the existing test suite still passes exactly as before the change (run the full suite in your worktree before and after: `cd {wt} && /venv/bin/python -m pytest -q -p no:cacheprovider --timeout=900 2>&1 | tail -5`; the same set of tests must pass — a number of tests fail already at baseline, that is expected; compare the failing sets), and
  2. the property above is violated by the changed code, and
  3. the violation needs something SPECIFIC to manifest — a particular chunk size / boundary alignment, an unusual but valid input, a multi-step sequence of operations, a particular size or value, or two cooperating edits that each look harmless alone — NOT something ordinary use would expose at once.
Prefer changes in different functions/files for the three, and prefer changes whose trigger is narrow.

For each change i in 1..3 write into /tmp/mut-{pid}/out/<i>/ :
  - patch.diff  : `git diff` of the change against HEAD (apply-able with `git apply` at the repo root)
  - demo.py     : a small standalone program (run as `cd <repo root> && /venv/bin/python demo.py`) that exits 0 and prints PASS on the unchanged code and exits 1 and prints FAIL (with the observed vs expected values) on the changed code; it must exercise the property through the public behaviour
  - notes.md    : which clause of the property it breaks, what exactly is needed for it to manifest, and the pytest pass/fail counts before and after.
Verify each demo both ways yourself (`git diff > p.diff; git apply -R p.diff; …; git apply p.diff` — do NOT use `git stash`: the stash is shared by all worktrees of /repo and other people work there concurrently). Reset the worktree to HEAD between changes (`git -C {wt} checkout -- .`). When finished, remove the worktree with `git -C /repo worktree remove --force {wt}` (keep /tmp/mut-{pid}/out) and reply with a short summary of the three changes.""")
