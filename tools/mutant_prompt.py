#!/usr/bin/env python3
"""print the prompt for an independent breaking-change author for property Cxx (only the property text is given)"""
import json, sys
pid = sys.argv[1]
p = [json.loads(l) for l in open('/verif/properties.jsonl') if json.loads(l)['id'] == pid][0]
wt = f"/tmp/mut-{pid}/wt"
print(f"""You are testing how robust a Python library's behaviour is against subtle regressions. The library is BioNumPy (NumPy-vectorised parsing/writing of bioinformatics formats and genomic interval arithmetic). You work ONLY inside your own scratch git worktree of the repository; create it first with:

    mkdir -p /tmp/mut-{pid} && git -C /repo worktree add --detach {wt} HEAD

Use `/venv/bin/python` as interpreter and ALWAYS run from inside `{wt}` (e.g. `cd {wt} && /venv/bin/python -m pytest -q -p no:cacheprovider -x`) so that `import bionumpy` picks up your worktree copy — verify once with `cd {wt} && /venv/bin/python -c "import bionumpy; print(bionumpy.__file__)"` (must print a path under {wt}). Never touch /repo itself or /verif, and do not read anything under /verif.

Here is a semantic property that the library is supposed to satisfy:

  TITLE: {p['title']}
  STATEMENT: {p['statement']}
  QUANTIFIED OVER: {p['quantifier']['text']}
  Relevant source files: {', '.join(p['anchors']['files'])}

YOUR TASK: produce THREE different, realistic code changes to the library (each a small edit of the kind a developer could plausibly make in a refactor, optimisation or bug-fix attempt) such that, for each change separately:
  1. the package still imports and the existing test suite still passes exactly as before the change (run the full suite in your worktree before and after: `cd {wt} && /venv/bin/python -m pytest -q -p no:cacheprovider --timeout=900 2>&1 | tail -5`; the same set of tests must pass — a number of tests fail already at baseline, that is expected; compare the failing sets), and
  2. the property above is violated by the changed code, and
  3. the violation needs something SPECIFIC to manifest — a particular chunk size / boundary alignment, an unusual but valid input, a multi-step sequence of operations, a particular size or value, or two cooperating edits that each look harmless alone — NOT something ordinary use would expose at once.
Prefer changes in different functions/files for the three, and prefer changes whose trigger is narrow.

For each change i in 1..3 write into /tmp/mut-{pid}/out/<i>/ :
  - patch.diff  : `git diff` of the change against HEAD (apply-able with `git apply` at the repo root)
  - demo.py     : a small standalone program (run as `cd <repo root> && /venv/bin/python demo.py`) that exits 0 and prints PASS on the unchanged code and exits 1 and prints FAIL (with the observed vs expected values) on the changed code; it must exercise the property through the public behaviour
  - notes.md    : which clause of the property it breaks, what exactly is needed for it to manifest, and the pytest pass/fail counts before and after.
Verify each demo both ways yourself (`git diff > p.diff; git apply -R p.diff; …; git apply p.diff` — do NOT use `git stash`: the stash is shared by all worktrees of /repo and other people work there concurrently). Reset the worktree to HEAD between changes (`git -C {wt} checkout -- .`). When finished, remove the worktree with `git -C /repo worktree remove --force {wt}` (keep /tmp/mut-{pid}/out) and reply with a short summary of the three changes.""")

# later rounds: a hint naming mechanisms that earlier rounds had not used (usage: mutant_prompt.py Cxx [4|5])
HINTS = {
    "4": """Diversity hint: go for mechanisms that a systematic input-enumerating checker would be least likely to exercise — state shared between objects or calls (class-level attributes, caches keyed by partial information, module-level tables mutated in place), dtype width / overflow / signedness at sizes just past a power of two, rarely used public entry points and keyword arguments documented in the docstrings, views vs copies (results aliasing inputs or each other), behaviour that differs only for the 2nd/3rd call or chunk, interactions of two features (e.g. gzip x CRLF x missing final newline x lazy), values at the edge of a column's range, empty rows/fields/files in the middle of non-empty ones.""",
    "5": """Diversity hint(this is a late round: the obvious places have been tried). Prefer changes of these kinds, each needing a NARROW trigger: (1) the boundary between two code paths selected by a data-dependent predicate (fast path vs generic path, "all rows same length" vs ragged, contiguous vs view, sorted vs unsorted, one chunk vs several) where only one side is changed; (2) the dtype of an intermediate (int32/uint8/uint16/float32 where int64/float64 is needed) so that only large values, long rows, many rows or many groups overflow or lose precision; (3) ordering, tie-breaking and stability (equal keys, duplicated entries, already-sorted or reverse-sorted input); (4) off-by-one at the empty / singleton / exactly-full case of an inner structure that is not empty overall (an empty row between non-empty rows, a field of width 0, a chromosome with no entries between two that have some); (5) NumPy scalar vs Python int vs 0-d array arguments, negative zero, NaN, bool where int is expected; (6) behaviour that is correct on the first use of an object and wrong on a later use (after a write, after a field was cached, after iteration was started and abandoned); (7) a silent fallback: an exception handler or default branch that turns what used to be an error into a plausible value. Avoid anything that a straightforward enumeration of small inputs with every chunk size would expose.""",
    "7": """Diversity hint (this is a very late round: six earlier rounds have covered the listed files' obvious and less obvious places — thresholds, dtype widths, views vs copies, shared class-level state, rarely used keywords, ordering and ties, error paths). Prefer, each with a NARROW trigger: (1) a change OUTSIDE the listed files — in a helper, base class, mixin, decorator or utility module that the listed code calls (table/dataclass machinery, encoded-array internals, ragged-array glue, string/number parsing helpers, file-type registry, `util` modules) — that breaks the property only along one particular route; (2) TWO cooperating edits in different functions, each harmless alone; (3) a less common member of a family (one file format / buffer type / encoding / dtype among several that share a code path) treated differently from its siblings; (4) behaviour reached only through a documented alternative spelling of the same request (a method vs the module-level function, a property vs a getter, `np.` function dispatch vs the method, slicing with a step / negative indices / boolean masks / np.newaxis / Ellipsis, `+=` vs `+`); (5) a change that is correct for inputs whose size is below a non-obvious internal constant and wrong above it, or correct when a count is odd and wrong when even; (6) text-level corner cases that are VALID for the format (trailing tab, leading zeros, `+` sign, exponent notation, upper/lower case hex or nucleotide letters, `.` as missing value, very long names); (7) results that are right in value but wrong in kind (dtype, encoding object, shape of an empty result, class of the returned table) so that only a FOLLOW-UP operation on the result goes wrong. Avoid anything that enumerating small inputs with every chunk size, or repeating a call twice, would expose.""",
}
if len(sys.argv) > 2 and sys.argv[2] in HINTS:
    print()
    print(HINTS[sys.argv[2]])
