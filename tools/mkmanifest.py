#!/venv/bin/python
"""Regenerates MANIFEST.json from the table below (kept here so the manifest is always valid)."""
import json, os
ROOT = os.path.dirname(os.path.dirname(os.path.abspath(__file__)))
TB = ("Trusted: Lean 4.33 kernel + axioms propext/Classical.choice/Quot.sound only (audited each run); the Gen tabulator and the "
      "differential harness; NumPy/npstructures/gzip/Python runtime semantics are modelled, not verified. ")
import sys, importlib, warnings
warnings.filterwarnings("ignore")
sys.path.insert(0, ROOT)
REG = json.load(open(os.path.join(ROOT, "registry.json")))
CLAIMED = {}
for pid in REG["claimed"]:
    mod = importlib.import_module(f"harness.props.{pid.lower()}")
    mm = mod.MANIFEST
    CLAIMED[pid] = dict(text=mm["text"], note=TB + mm.get("note", ""), technique=mm["technique"], design=mm.get("design", f"§6 {pid}"))
NA = REG.get("not_applicable", {})
PENDING_REASON = "check not built yet in this round (planned as Lean model + correspondence, DESIGN §6); not claimed until it runs green"
ALL = [f"C{i:02d}" for i in range(1, 21)]
m = {
 "version": 1,
 "setup_cmd": "cd /verif && (/venv/bin/python tools/regen_all.py || true) && cd /verif/lean && (lake build || true)",
 "hooks": {"guard": "BIONUMPY_BIONUMPY_VERIF", "enable": "none needed: all observation is through the public API in-process; the guard is reserved and set by the harness",
           "baseline_off_cmd": "/verif/tools/baseline.py", "source_commits": [], "add_only": True},
 "engines": [{"name": "lean-proof+correspondence", "path": "check", "serves_properties": sorted(CLAIMED),
              "kind_free_text": "Lean 4 lake project /verif/lean (models, theorems, generated tables, audit) + Python differential harness /verif/harness driving the real package and the compiled Lean driver"}],
 "checks": [], "not_applicable": [],
 "notes": "See DESIGN.md. ./check Cxx --tier quick|thorough; VERIF_SEED honoured; exit 2 = machinery error/timeout (never a verdict).",
}
for pid in ALL:
    if pid in CLAIMED:
        c = CLAIMED[pid]
        m["checks"].append({
            "property_id": pid, "quick_cmd": f"./check {pid} --tier quick", "thorough_cmd": f"./check {pid} --tier thorough",
            "evidence_file": f"evidence/{pid}.json", "replay_cmd_template": f"./check {pid} --replay {{path}}",
            "engine": "lean-proof+correspondence",
            "level_claimed": {"category": "proof", "text": c["text"], "design_ref": c["design"]},
            "level_note": c["note"], "technique": c["technique"]})
    else:
        m["not_applicable"].append({"property_id": pid, "reason": NA.get(pid, PENDING_REASON)})
json.dump(m, open(os.path.join(ROOT, "MANIFEST.json"), "w"), indent=1, ensure_ascii=False)
print("claimed", sorted(CLAIMED))
