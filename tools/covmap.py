#!/venv/bin/python
"""tools/covmap.py Cxx [tier] [max_cases]: which statements/branches of the property's anchored files do the
correspondence cases of that tier execute on the real package? Runs the property module's impl() in ONE process
under coverage.py (branch coverage) and writes coverage/Cxx.json + prints the uncovered lines of the anchored
files that are inside functions touched at all. Used to find where a breaking change could hide from the
differential layer (widening work list); it decides nothing."""
import sys, os, json, random, importlib, io, contextlib, signal, time
R = os.path.dirname(os.path.dirname(os.path.abspath(__file__)))
sys.path.insert(0, R)
import coverage
pid = sys.argv[1]
tier = sys.argv[2] if len(sys.argv) > 2 else "quick"
cap = int(sys.argv[3]) if len(sys.argv) > 3 else 6000
from harness import core
repo = str(core.REPO)
prop = [json.loads(l) for l in open(os.path.join(R, "properties.jsonl")) if json.loads(l)["id"] == pid][0]
anch = prop["anchors"]["files"]
cov = coverage.Coverage(branch=True, include=[os.path.join(repo, "bionumpy", "*")], data_file=None)
cov.start()
core.import_bionumpy()
mod = importlib.import_module(f"harness.props.{pid.lower()}")
rng = random.Random(int(os.environ.get("VERIF_SEED", "0")))
cases = list(mod.cases(tier, rng))
if len(cases) > cap:
    random.Random(1).shuffle(cases)
    cases = cases[:cap]
class TO(Exception): pass
def _al(*_): raise TO()
signal.signal(signal.SIGALRM, _al)
t0 = time.time()
n = 0
for c in cases:
    signal.alarm(20)
    try:
        with contextlib.redirect_stdout(io.StringIO()), contextlib.redirect_stderr(io.StringIO()):
            mod.impl(c)
    except BaseException:
        pass
    finally:
        signal.alarm(0)
    n += 1
if hasattr(mod, "live_cases"):
    pass
cov.stop()
out = {"property": pid, "tier": tier, "cases": n, "wall_s": round(time.time() - t0, 1), "files": {}}
for f in anch:
    path = os.path.join(repo, f)
    if not os.path.exists(path):
        continue
    try:
        _, stmts, excl, missing, _ = cov.analysis2(path)
    except Exception as e:
        out["files"][f] = {"error": str(e)}; continue
    an = cov._analyze(path)
    mb = an.missing_branch_arcs()
    out["files"][f] = {"statements": len(stmts), "missing": missing, "missing_branches": {str(k): v for k, v in mb.items()}}
os.makedirs(os.path.join(R, "coverage"), exist_ok=True)
json.dump(out, open(os.path.join(R, "coverage", f"{pid}.json"), "w"), indent=0)
for f, d in out["files"].items():
    if "error" in d: print(f, d["error"]); continue
    print(f"{f}: {d['statements'] - len(d['missing'])}/{d['statements']} statements; partial branches at {sorted(int(k) for k in d['missing_branches'])[:60]}")
