#!/usr/bin/env python3
"""print the prompt for an independent author of BEHAVIOUR-PRESERVING refactors around property Cxx (only the
property text is given); used to test that the checks raise no alarm on code where the property holds"""
import json, sys
pid = sys.argv[1]
p = [json.loads(l) for l in open('/verif/properties.jsonl') if json.loads(l)['id'] == pid][0]
wt = f"/tmp/ref-{pid}/wt"
mech = "\n".join(f"    - {m['name']} ({m['where']})" for m in p['anchors'].get('mechanism', []))
print(f"""You are a maintainer cleaning up a Python library. The library is BioNumPy (NumPy-vectorised parsing/writing of bioinformatics formats and genomic interval arithmetic). You work ONLY inside your own scratch git worktree of the repository; create it first with:

    mkdir -p /tmp/ref-{pid} && git -C /repo worktree add --detach {wt} HEAD

Use `/venv/bin/python` as interpreter and ALWAYS run from inside `{wt}` (e.g. `cd {wt} && /venv/bin/python -m pytest -q -p no:cacheprovider -x`) so that `import bionumpy` picks up your worktree copy — verify once with `cd {wt} && /venv/bin/python -c "import bionumpy; print(bionumpy.__file__)"` (must print a path under {wt}). Never touch /repo itself or /verif, and do not read anything under /verif.

Here is a semantic property that the library satisfies and MUST KEEP satisfying:

  TITLE: {p['title']}
  STATEMENT: {p['statement']}
  QUANTIFIED OVER: {p['quantifier']['text']}
  Relevant source files: {', '.join(p['anchors']['files'])}
  Mechanisms involved:
{mech}

YOUR TASK: produce THREE different, realistic BEHAVIOUR-PRESERVING refactors of the code that implements this property (in the relevant source files above, in the functions implementing the listed mechanisms). Each must be the kind of change a maintainer really makes and that a reviewer would accept as "no functional change": e.g. renaming private helpers / private attributes / local variables, extracting or inlining a helper function, restructuring a loop or a chain of if/elif, replacing a NumPy idiom by an equivalent one (np.flatnonzero vs np.nonzero()[0], cumsum vs add.accumulate, boolean mask vs index list, concatenate vs hstack, ...), reordering independent statements, changing an internal intermediate dtype where it cannot matter, moving a function to another private module (keeping public import paths working), adding an internal fast path that returns the identical result, caching a value that is provably constant. Each refactor should change roughly 10-80 lines and should touch code that actually executes for the property above.
For each change separately:
  1. the public behaviour is EXACTLY the same for every input: same results (values, dtypes, shapes, encodings), same exception types, same error messages and line numbers, same files written byte for byte, same behaviour for every chunk size; do not fix bugs, do not change any public name, signature, or public class attribute;
  2. the package still imports and the existing test suite still passes exactly as before (run the full suite in your worktree before and after: `cd {wt} && /venv/bin/python -m pytest -q -p no:cacheprovider --timeout=900 2>&1 | tail -5`; a number of tests fail already at baseline, that is expected; compare the failing sets);
  3. argue in notes.md why it preserves behaviour for all inputs, and spot-check it yourself with a small differential script comparing original and refactored code on a few hundred random inputs (including edge cases: empty inputs, single entry, tiny chunk sizes, no trailing newline).

For each change i in 1..3 write into /tmp/ref-{pid}/out/<i>/ :
  - patch.diff  : `git diff` of the change against HEAD (apply-able with `git apply` at the repo root)
  - notes.md    : what was refactored, why behaviour is preserved, the pytest pass/fail counts before and after, and what you spot-checked.
Do NOT use `git stash` (the stash is shared by all worktrees of /repo and other people work there concurrently). Reset the worktree to HEAD between changes (`git -C {wt} checkout -- .`). When finished, remove the worktree with `git -C /repo worktree remove --force {wt}` (keep /tmp/ref-{pid}/out) and reply with a short summary of the three refactors.""")
