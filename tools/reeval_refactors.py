#!/venv/bin/python
"""tools/reeval_refactors.py <refactor id> [...] : run again, on the current /repo HEAD and the committed checks, the quick checks
recorded for stored behaviour-preserving refactors (expected: OK everywhere); the outcome replaces "quick_checks" in meta.json,
the earlier one is kept under "earlier"."""
import json, os, subprocess, sys, time
R = os.path.dirname(os.path.dirname(os.path.abspath(__file__)))
for rid in sys.argv[1:]:
    d = os.path.join(R, "refactors", rid)
    meta = json.load(open(os.path.join(d, "meta.json")))
    rel = sorted(meta["quick_checks"])
    t = time.time()
    r = subprocess.run([os.path.join(R, "tools", "run_seeded.sh"), os.path.join(d, "patch.diff"), "quick"] + rel, capture_output=True, text=True)
    if "PATCH-DOES-NOT-APPLY" in r.stdout:
        meta["reeval_note"] = "patch no longer applies to /repo HEAD " + subprocess.run(["git", "-C", "/repo", "log", "--format=%h", "-1"], capture_output=True, text=True).stdout.strip()
        json.dump(meta, open(os.path.join(d, "meta.json"), "w"), indent=1)
        print(rid, "PATCH-DOES-NOT-APPLY", flush=True)
        continue
    res = {}
    for q in rel:
        line = [l for l in r.stdout.splitlines() if l.startswith(f"[{q} ")]
        line = line[-1] if line else r.stdout[-200:]
        res[q] = "VIOLATION" + (" no-failing-input-found" if "no-failing-input-found" in line else "") if "VIOLATION" in line else ("OK" if " OK property=" in line else "error: " + line[-160:])
    meta.setdefault("earlier", []).append({k: meta[k] for k in ("quick_checks", "evaluated_at_verif_commit", "repo_head") if k in meta})
    meta["quick_checks"] = res
    meta["wall_s"] = round(time.time() - t)
    meta["evaluated_at_verif_commit"] = subprocess.run(["git", "-C", R, "log", "--format=%h", "-1"], capture_output=True, text=True).stdout.strip()
    meta["repo_head"] = subprocess.run(["git", "-C", "/repo", "log", "--format=%h", "-1"], capture_output=True, text=True).stdout.strip()
    meta.pop("reeval_note", None)
    json.dump(meta, open(os.path.join(d, "meta.json"), "w"), indent=1)
    print(rid, res, flush=True)
