#!/venv/bin/python
"""tools/eval_seeded.py <seeded id> [...]: run the property's quick check (then thorough if quick misses) on each seeded change
in a scratch worktree; record the outcome in seeded/<id>/meta.json under "checks"."""
import json, os, subprocess, sys, time
R = os.path.dirname(os.path.dirname(os.path.abspath(__file__)))
for sid in sys.argv[1:]:
    d = os.path.join(R, "seeded", sid)
    meta = json.load(open(os.path.join(d, "meta.json")))
    pid = meta["property"]
    res = {}
    for tier in ("quick", "thorough"):
        t = time.time()
        r = subprocess.run([os.path.join(R, "tools", "run_seeded.sh"), os.path.join(d, "patch.diff"), tier, pid], capture_output=True, text=True)
        line = [l for l in r.stdout.splitlines() if l.startswith(f"[{pid} ")]
        line = line[-1] if line else r.stdout[-200:]
        verdict = "VIOLATION" if "VIOLATION" in line else ("missed" if " OK property=" in line else "error")
        res[tier] = {"verdict": verdict, "no_failing_input_found": "no-failing-input-found" in line, "wall_s": round(time.time() - t)}
        if verdict == "VIOLATION":
            break
    meta["checks"] = {pid: res, "evaluated_at_verif_commit": subprocess.run(["git", "-C", R, "log", "--format=%h", "-1"], capture_output=True, text=True).stdout.strip()}
    json.dump(meta, open(os.path.join(d, "meta.json"), "w"), indent=1)
    print(sid, {k: v["verdict"] for k, v in res.items()})
