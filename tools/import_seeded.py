#!/venv/bin/python
"""tools/import_seeded.py Cxx <src dir containing 1/,2/,3/> : confirm each change and keep the confirmed ones as seeded/<Cxx>-<tag><i>/"""
import json, os, shutil, subprocess, sys
R = os.path.dirname(os.path.dirname(os.path.abspath(__file__)))
pid, src = sys.argv[1], sys.argv[2]
tag = sys.argv[3] if len(sys.argv) > 3 else "m"
for i in sorted(os.listdir(src)):
    d = os.path.join(src, i)
    if not os.path.exists(os.path.join(d, "patch.diff")):
        continue
    dst = os.path.join(R, "seeded", f"{pid}-{tag}{i}")
    if os.path.exists(os.path.join(dst, "meta.json")):
        continue
    r = subprocess.run([os.path.join(R, "tools", "confirm_seeded.py"), d], capture_output=True, text=True)
    try:
        info = json.loads(r.stdout.strip().splitlines()[-1])
    except Exception:
        print(pid, i, "CONFIRM-FAILED", r.stdout[-300:], r.stderr[-300:]); continue
    if not info.get("confirmed"):
        print(pid, i, "NOT CONFIRMED", info); continue
    os.makedirs(dst, exist_ok=True)
    for f in ("patch.diff", "demo.py", "notes.md"):
        if os.path.exists(os.path.join(d, f)):
            shutil.copy(os.path.join(d, f), os.path.join(dst, f))
    notes = open(os.path.join(d, "notes.md")).read() if os.path.exists(os.path.join(d, "notes.md")) else ""
    meta = {"id": f"{pid}-{tag}{i}", "property": pid, "author": "independent sub-agent given only the property text and its own worktree",
            "needs_to_manifest": " ".join(notes.split())[:1800] or "see notes.md", "repo_head_when_confirmed": subprocess.run(["git", "-C", "/repo", "log", "--format=%h", "-1"], capture_output=True, text=True).stdout.strip(),
            "confirmed_by_lead": {"ran": "tools/confirm_seeded.py (scratch worktree: demo on HEAD exit 0; git apply; demo exit != 0; pytest pass-set unchanged)",
                                  **{k: info[k] for k in ("demo_on_head", "demo_with_patch", "patch_applies", "tests_newly_failing", "n_pass_head", "n_pass_patch")}},
            "checks": {}}
    json.dump(meta, open(os.path.join(dst, "meta.json"), "w"), indent=1)
    print(pid, i, "kept as", dst)
