#!/venv/bin/python
"""tools/regen_all.py: regenerate every Gen/*.lean from the package imported from $BNP_REPO (default /repo).
Used by MANIFEST.setup_cmd so that a fresh checkout never builds against tables generated from an older tree
(each check regenerates its own tables — and those of the properties it imports — again on every run)."""
import importlib, os, sys, glob
R = os.path.dirname(os.path.dirname(os.path.abspath(__file__)))
sys.path.insert(0, R)
from harness import core
core.import_bionumpy()
changed, failed = [], []
for f in sorted(glob.glob(os.path.join(R, "harness", "props", "c[0-9][0-9].py"))):
    name = os.path.basename(f)[:-3]
    try:
        mod = importlib.import_module(f"harness.props.{name}")
        if hasattr(mod, "regenerate"):
            for rel, text in mod.regenerate():
                if core.write_if_changed(core.LEAN / rel, text):
                    changed.append(rel)
    except Exception as e:      # a table that cannot be extracted is the business of that property's check, not of the setup
        failed.append(f"{name}: {type(e).__name__}: {e}")
print("regenerated:", changed or "nothing changed")
if failed:
    print("could not regenerate (left to the checks):", failed)
