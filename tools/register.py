#!/usr/bin/env python3
"""tools/register.py Cxx driver|claimed|unclaim  — edit registry.json under a lock, then regenerate Driver/MANIFEST."""
import fcntl, json, os, subprocess, sys
R = os.path.dirname(os.path.dirname(os.path.abspath(__file__)))
pid, what = sys.argv[1], sys.argv[2]
with open(os.path.join(R, ".registry.lock"), "w") as lk:
    fcntl.flock(lk, fcntl.LOCK_EX)
    p = os.path.join(R, "registry.json")
    reg = json.load(open(p))
    if what == "driver" and pid not in reg["drivers"]:
        reg["drivers"].append(pid)
    if what == "claimed":
        for k in ("drivers", "claimed"):
            if pid not in reg[k]:
                reg[k].append(pid)
    if what == "unclaim" and pid in reg["claimed"]:
        reg["claimed"].remove(pid)
    reg["drivers"].sort(); reg["claimed"].sort()
    json.dump(reg, open(p, "w"))
    subprocess.run([os.path.join(R, "tools", "mkdriver.py")], check=True)
    subprocess.run(["/venv/bin/python", os.path.join(R, "tools", "mkmanifest.py")], check=True)
