#!/usr/bin/env python3
"""tools/add_finding.py Cxx known|fixed <key> <what> [commit]  — append/update an entry of known_findings.json under a lock."""
import fcntl, json, os, sys
R = os.path.dirname(os.path.dirname(os.path.abspath(__file__)))
pid, status, key, what = sys.argv[1:5]
commit = sys.argv[5] if len(sys.argv) > 5 else None
with open(os.path.join(R, ".registry.lock"), "w") as lk:
    fcntl.flock(lk, fcntl.LOCK_EX)
    p = os.path.join(R, "known_findings.json")
    d = json.load(open(p))
    d["findings"] = [f for f in d["findings"] if not (f["property"] == pid and f["key"] == key)]
    e = {"property": pid, "status": status, "key": key, "what": what}
    if commit:
        e["commit"] = commit
    d["findings"].append(e)
    json.dump(d, open(p, "w"), indent=1)
print("ok")
