#!/venv/bin/python
"""tools/confirm_seeded.py <dir with patch.diff, demo.py> : confirm in a scratch worktree that
 (1) demo passes on HEAD, (2) patch applies, (3) demo fails with the patch, (4) the pytest pass-set is unchanged.
Prints a JSON summary."""
import json, os, subprocess, sys, tempfile, shutil, xml.etree.ElementTree as ET
d = os.path.abspath(sys.argv[1])
tmp = tempfile.mkdtemp(prefix="confirm.")
wt = os.path.join(tmp, "wt")
env = dict(os.environ); env.pop("BIONUMPY_BIONUMPY_VERIF", None)
def sh(cmd, **kw):
    return subprocess.run(cmd, cwd=wt, env=env, capture_output=True, text=True, **kw)
def passed_set():
    x = os.path.join(tmp, "j.xml")
    sh(["/venv/bin/python", "-m", "pytest", "-q", "-p", "no:cacheprovider", "--timeout=900", "--continue-on-collection-errors", f"--junitxml={x}"])
    s = set()
    for tc in ET.parse(x).getroot().iter("testcase"):
        if not any(ch.tag in ("failure", "error", "skipped") for ch in tc):
            s.add(f"{tc.get('classname')}::{tc.get('name')}")
    return s
out = {"dir": d}
try:
    subprocess.run(["git", "-C", "/repo", "worktree", "add", "-q", "--detach", wt, "HEAD"], check=True)
    shutil.copy(os.path.join(d, "demo.py"), os.path.join(wt, "demo_seeded.py"))
    r = sh(["/venv/bin/python", "demo_seeded.py"]); out["demo_on_head"] = r.returncode
    base = passed_set()
    a = sh(["git", "apply", "--3way", os.path.join(d, "patch.diff")])
    if a.returncode != 0:
        a = sh(["git", "apply", os.path.join(d, "patch.diff")])
    out["patch_applies"] = a.returncode == 0
    r = sh(["/venv/bin/python", "demo_seeded.py"]); out["demo_with_patch"] = r.returncode
    out["demo_tail"] = (r.stdout + r.stderr)[-300:]
    after = passed_set()
    flaky = {"tests.property_tests.test_strops::test_str_to_float", "tests.property_tests.test_strops::test_int_lists_to_strings"}
    out["tests_newly_failing"] = sorted((base - after) - flaky)
    out["tests_newly_passing"] = sorted((after - base) - flaky)
    out["n_pass_head"], out["n_pass_patch"] = len(base), len(after)
    out["confirmed"] = out["demo_on_head"] == 0 and out["patch_applies"] and out["demo_with_patch"] != 0 and not out["tests_newly_failing"]
finally:
    subprocess.run(["git", "-C", "/repo", "worktree", "remove", "--force", wt])
    shutil.rmtree(tmp, ignore_errors=True)
print(json.dumps(out))
