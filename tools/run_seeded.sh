#!/bin/bash
# tools/run_seeded.sh <patch.diff> <tier> Cxx [Cyy...]
# Apply a breaking change in a scratch worktree of /repo and run the checks on it FROM A PRIVATE COPY of /verif
# (so regenerated Gen files, lake builds and evidence of the evaluation never disturb /verif itself).
set -u
patch=$(realpath "$1"); tier=$2; shift 2
EV=${SEEDED_VERIF_COPY:-/tmp/seeded_verif_copy}
exec 9>"${EV}.lock"; flock 9
mkdir -p "$EV"
rsync -a --delete --exclude replays --exclude evidence --exclude .git /verif/ "$EV"/
# tracked files: the COMMITTED versions (others may be editing the working tree right now)
git -C /verif archive HEAD | tar -x -C "$EV"
mkdir -p "$EV/evidence" "$EV/replays"
wt=$(mktemp -d /tmp/seeded.XXXXXX)/wt
git -C /repo worktree add -q --detach "$wt" HEAD || exit 3
if ! git -C "$wt" apply --3way "$patch" 2>/dev/null && ! git -C "$wt" apply "$patch"; then echo "PATCH-DOES-NOT-APPLY $patch"; git -C /repo worktree remove --force "$wt"; exit 3; fi
cd "$EV"
for p in "$@"; do
  out=$(BNP_REPO="$wt" timeout 3000 ./check "$p" --tier "$tier" 2>&1 | grep -v "^KNOWN-FINDING" | tail -2 | tr '\n' ' ' | cut -c1-220)
  echo "[$p on $(basename $(dirname $patch))] $out"
done
git -C /repo worktree remove --force "$wt"; rmdir "$(dirname $wt)" 2>/dev/null
