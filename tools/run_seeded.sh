#!/bin/bash
# tools/run_seeded.sh <patch.diff> <tier> Cxx [Cyy...]  — apply a breaking change in a scratch worktree of /repo and run the checks on it
set -u
patch=$(realpath "$1"); tier=$2; shift 2
wt=$(mktemp -d /tmp/seeded.XXXXXX)/wt
git -C /repo worktree add -q --detach "$wt" HEAD || exit 3
if ! git -C "$wt" apply --3way "$patch" 2>/dev/null && ! git -C "$wt" apply "$patch"; then echo "PATCH-DOES-NOT-APPLY $patch"; git -C /repo worktree remove --force "$wt"; exit 3; fi
cd /verif
for p in "$@"; do
  out=$(BNP_REPO="$wt" timeout 3000 ./check "$p" --tier "$tier" 2>&1 | grep -v "^KNOWN-FINDING" | tail -2 | tr '\n' ' ' | cut -c1-220)
  echo "[$p on $(basename $(dirname $patch))] $out"
done
git -C /repo worktree remove --force "$wt"; rmdir "$(dirname $wt)" 2>/dev/null
for p in "$@"; do ./check "$p" --tier quick >/dev/null 2>&1; done   # restore Gen files / evidence from /repo itself
