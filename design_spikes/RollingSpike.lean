/-! Design-phase feasibility spike (NOT part of the verification machinery; no check builds it).
    Shape of C13.rolling_rowlocal: flatten → window over the flat list → re-wrap by the original
    row lengths → trim `w-1` per row  =  per-row windows, for all ragged inputs and all w ≥ 1. -/
namespace Roll
variable {α β : Type}

def windows (w : Nat) (f : List α → β) (row : List α) : List β :=
  (List.range (row.length + 1 - w)).map (fun i => f ((row.drop i).take w))

def rewrapTrim (w : Nat) : List Nat → List β → List (List β)
  | [], _ => []
  | l :: ls, c => (c.take (l - (w-1))) :: rewrapTrim w ls (c.drop l)

theorem windows_append_take (w : Nat) (hw : 1 ≤ w) (f : List α → β) (r rest : List α) :
    (windows w f (r ++ rest)).take (r.length - (w-1)) = windows w f r := by
  apply List.ext_getElem
  · simp [windows]; omega
  · intro i h1 h2
    simp [windows] at h1 h2 ⊢
    have : i + w ≤ r.length := by omega
    rw [List.drop_append_of_le_length (by omega)]
    rw [List.take_append_of_le_length (by simp; omega)]

theorem windows_append_drop (w : Nat) (_hw : 1 ≤ w) (f : List α → β) (r rest : List α) :
    (windows w f (r ++ rest)).drop r.length = windows w f rest := by
  apply List.ext_getElem
  · simp [windows]; omega
  · intro i h1 h2
    simp [windows] at h1 h2 ⊢

theorem rolling_rowlocal (w : Nat) (hw : 1 ≤ w) (f : List α → β) (rows : List (List α)) :
    rewrapTrim w (rows.map List.length) (windows w f rows.flatten) = rows.map (windows w f) := by
  induction rows with
  | nil => simp [rewrapTrim]
  | cons r rs ih =>
    simp only [List.map_cons, List.flatten_cons, rewrapTrim]
    rw [windows_append_take w hw, windows_append_drop w hw, ih]

#print axioms rolling_rowlocal
end Roll
