/-! Design-phase feasibility spike (NOT part of the verification machinery; no check builds it).
    Shape of C01.readAll_bytes for the delimited format in seek mode, with the *repaired*
    end-of-file rule (0 bytes read while data is pending = end of file): for every file and
    every chunk size k > 0 the concatenation of the delivered chunks is the file plus a final
    newline if it was missing. The real model (Model/Reader.lean) generalises this to an abstract
    `Fmt`, both modes, the error paths and today's (unrepaired) rule with its refutation. -/
namespace Rd
abbrev Bytes := List Nat
def NL : Nat := 10

/-- length of the prefix up to and including the last newline; 0 if none -/
def cutAt : Bytes → Nat
  | [] => 0
  | x :: xs => if cutAt xs > 0 then cutAt xs + 1 else if x = NL then 1 else 0

def addNL (b : Bytes) : Bytes := if b.getLast? = some NL then b else b ++ [NL]

theorem cutAt_le (b : Bytes) : cutAt b ≤ b.length := by
  induction b with
  | nil => simp [cutAt]
  | cons x xs ih =>
    simp only [cutAt, List.length_cons]
    split
    · omega
    · split <;> omega

theorem cutAt_pos_of_mem (b : Bytes) (h : NL ∈ b) : 0 < cutAt b := by
  induction b with
  | nil => cases h
  | cons x xs ih =>
    simp only [cutAt]
    split
    · omega
    · rename_i hc
      have : NL ∉ xs := fun hm => hc (ih hm)
      have : x = NL := by
        cases List.mem_cons.mp h with
        | inl e => exact e.symm
        | inr m => exact absurd m this
      simp [this]

/-- if the list ends with NL the cut is the whole list -/
theorem cutAt_of_getLast (b : Bytes) (h : b.getLast? = some NL) : cutAt b = b.length := by
  induction b with
  | nil => simp at h
  | cons x xs ih =>
    cases xs with
    | nil => simp at h; simp [cutAt, h]
    | cons y ys =>
      have h' : (y :: ys).getLast? = some NL := by simpa [List.getLast?_cons_cons] using h
      have := ih h'
      have hpos : 0 < cutAt (y :: ys) := by rw [this]; simp
      rw [cutAt, if_pos hpos, this]; simp

theorem addNL_getLast (b : Bytes) : (addNL b).getLast? = some NL := by
  unfold addNL; split
  · assumption
  · simp

/-- accumulate raw reads of k bytes from position p until a newline is present or EOF.
    Returns (acc, newPos, finished). Mirrors the inner `while not complete_entry_found`. -/
def accumulate (file : Bytes) (k : Nat) : Nat → Nat → Bytes → Bytes × Nat × Bool
  | 0, p, acc => (acc, p, true)
  | fuel+1, p, acc =>
    let raw := (file.drop p).take k
    let acc' := acc ++ raw
    if raw.length < k then
      (if acc' = [] then ([], p, true) else (addNL acc', p + raw.length, true))
    else if NL ∈ acc' then (acc', p + raw.length, false)
    else accumulate file k fuel (p + raw.length) acc'

def readAll (file : Bytes) (k : Nat) : Nat → Nat → List Bytes
  | 0, _ => []
  | fuel+1, pos =>
    match accumulate file k (file.length + 1) pos [] with
    | (acc, p, fin) =>
      if acc = [] then [] else
      if fin then [acc]
      else (acc.take (cutAt acc)) :: readAll file k fuel (p - (acc.length - cutAt acc))

/-- spec of accumulate: with acc = file[pos0..p), result is file[pos0..p') (+NL at EOF) -/
theorem accumulate_spec (file : Bytes) (k : Nat) (hk : 0 < k) :
    ∀ (fuel p pos0 : Nat) (acc : Bytes), pos0 ≤ p → p ≤ file.length →
      acc = (file.drop pos0).take (p - pos0) → file.length - p < fuel →
      ∃ p', p ≤ p' ∧ p' ≤ file.length ∧
        ((accumulate file k fuel p acc = ((file.drop pos0).take (p' - pos0), p', false)
            ∧ NL ∈ (file.drop pos0).take (p' - pos0))
         ∨ (p' = file.length ∧ file.drop pos0 ≠ [] ∧
              accumulate file k fuel p acc = (addNL (file.drop pos0), p', true))
         ∨ (file.drop pos0 = [] ∧ (accumulate file k fuel p acc).1 = [])) := by
  intro fuel
  induction fuel with
  | zero => intro p pos0 acc _ _ _ h; omega
  | succ fuel ih =>
    intro p pos0 acc hp0 hp hacc hfuel
    simp only [accumulate]
    have hraw : ((file.drop p).take k).length = min k (file.length - p) := by simp
    have hacc' : acc ++ (file.drop p).take k = (file.drop pos0).take (p + min k (file.length - p) - pos0) := by
      subst hacc
      have e1 : file.drop p = (file.drop pos0).drop (p - pos0) := by
        rw [List.drop_drop]; congr 1; omega
      rw [e1, ← List.take_add, List.take_eq_take_iff]
      simp; omega
    split
    · -- short read: EOF
      rename_i hlt
      rw [hraw] at hlt
      have hEOF : p + min k (file.length - p) = file.length := by omega
      split
      · rename_i hemp
        refine ⟨file.length, hp, Nat.le_refl _, Or.inr (Or.inr ⟨?_, rfl⟩)⟩
        rw [hacc', hEOF] at hemp
        have : (file.drop pos0).length ≤ file.length - pos0 := by simp
        rw [List.take_of_length_le (by simp)] at hemp
        exact hemp
      · rename_i hne
        refine ⟨file.length, hp, Nat.le_refl _, Or.inr (Or.inl ⟨rfl, ?_, ?_⟩)⟩
        · rw [hacc', hEOF, List.take_of_length_le (by simp)] at hne; exact hne
        · rw [hacc', hEOF, List.take_of_length_le (by simp)]
          congr 2
          rw [hraw]; omega
    · rename_i hge
      rw [hraw] at hge
      have hfull : min k (file.length - p) = k := by omega
      split
      · rename_i hmem
        refine ⟨p + k, by omega, by omega, Or.inl ⟨?_, ?_⟩⟩
        · rw [hacc', hfull, hraw, hfull]
        · rw [hacc', hfull] at hmem; exact hmem
      · rename_i hnm
        rw [hraw, hfull]
        have := ih (p + k) pos0 (acc ++ (file.drop p).take k) (by omega) (by omega)
          (by rw [hacc', hfull]) (by omega)
        obtain ⟨p', h1, h2, h3⟩ := this
        exact ⟨p', by omega, h2, h3⟩


theorem cutAt_take_getLast (b : Bytes) (h : 0 < cutAt b) : (b.take (cutAt b)).getLast? = some NL := by
  induction b with
  | nil => simp [cutAt] at h
  | cons x xs ih =>
    simp only [cutAt] at h ⊢
    split
    · rename_i hc
      have := ih hc
      rw [List.take_succ_cons]
      have hne : xs.take (cutAt xs) ≠ [] := by
        intro e; rw [e] at this; simp at this
      cases hxs : xs.take (cutAt xs) with
      | nil => exact absurd hxs hne
      | cons a as => rw [hxs] at this; rw [List.getLast?_cons_cons]; exact this
    · rename_i hc
      split
      · rename_i hx; simp [hx]
      · rename_i hx; simp [hc, hx] at h

theorem addNL_ne_nil (b : Bytes) : addNL b ≠ [] := by
  unfold addNL; split
  · rename_i h; intro e; rw [e] at h; simp at h
  · simp

theorem addNL_split (D : Bytes) (c : Nat) (h : (D.take c).getLast? = some NL) :
    addNL D = D.take c ++ (if D.drop c = [] then [] else addNL (D.drop c)) := by
  split
  · rename_i hd
    have : D.take c = D := by
      have := List.take_append_drop c D; rw [hd] at this; simpa using this
    rw [this] at h ⊢
    simp [addNL, h]
  · rename_i hd
    have hl : D.getLast? = (D.drop c).getLast? := by
      conv => lhs; rw [← List.take_append_drop c D]
      rw [List.getLast?_append]
      cases hh : (D.drop c).getLast? with
      | none => exact absurd (List.getLast?_eq_none_iff.mp hh) hd
      | some v => simp
    unfold addNL
    rw [hl]
    split
    · exact (List.take_append_drop c D).symm
    · rw [← List.append_assoc, List.take_append_drop]

theorem readAll_flatten (file : Bytes) (k : Nat) (hk : 0 < k) :
    ∀ fuel pos, pos ≤ file.length → file.length - pos < fuel →
      (readAll file k fuel pos).flatten
        = if file.drop pos = [] then [] else addNL (file.drop pos) := by
  intro fuel
  induction fuel with
  | zero => intro pos _ h; omega
  | succ fuel ih =>
    intro pos hpos hfuel
    obtain ⟨p', h1, h2, h3⟩ := accumulate_spec file k hk (file.length + 1) pos pos []
      (Nat.le_refl _) hpos (by simp) (by omega)
    rcases h3 with ⟨hacc, hmem⟩ | ⟨_, hne, hacc⟩ | ⟨hemp, hacc⟩
    · -- complete entry found, not finished
      have hD : file.drop pos ≠ [] := by
        intro e; rw [e] at hmem; simp at hmem
      have haccne : (file.drop pos).take (p' - pos) ≠ [] := by
        intro e; rw [e] at hmem; simp at hmem
      rw [readAll, hacc]
      simp only [haccne, if_false, Bool.false_eq_true, hD]
      have hlen0 : ((file.drop pos).take (p' - pos)).length = p' - pos := by simp; omega
      obtain ⟨acc, hacc_def⟩ : ∃ acc, acc = (file.drop pos).take (p' - pos) := ⟨_, rfl⟩
      rw [← hacc_def] at hmem haccne hlen0 ⊢
      have hc := cutAt_pos_of_mem acc hmem
      have hcl := cutAt_le acc
      have hlen : acc.length = p' - pos := hlen0
      have hnew : p' - (acc.length - cutAt acc) = pos + cutAt acc := by omega
      rw [hnew, List.flatten_cons, ih (pos + cutAt acc) (by omega) (by omega)]
      have htake : acc.take (cutAt acc) = (file.drop pos).take (cutAt acc) := by
        have h := List.take_take (i := cutAt acc) (j := p' - pos) (l := file.drop pos)
        rw [← hacc_def] at h
        rw [h]; congr 1; omega
      have hlast := cutAt_take_getLast acc hc
      rw [htake] at hlast ⊢
      rw [addNL_split (file.drop pos) (cutAt acc) hlast, List.drop_drop]
    · rw [readAll, hacc]
      simp [addNL_ne_nil, hne]
    · rw [readAll]
      have : (accumulate file k (file.length + 1) pos []).1 = [] := hacc
      revert this
      cases accumulate file k (file.length + 1) pos [] with
      | mk a b => intro h; simp at h; subst h; simp [hemp]

theorem readAll_complete (file : Bytes) (k : Nat) (hk : 0 < k) :
    (readAll file k (file.length + 1) 0).flatten = if file = [] then [] else addNL file := by
  have := readAll_flatten file k hk (file.length + 1) 0 (Nat.zero_le _) (by omega)
  simpa using this

#print axioms readAll_complete
example : readAll [1,9,2,10,3,9,4] 3 8 0 = [[1,9,2,10],[3,9,4,10]] := by decide
end Rd
